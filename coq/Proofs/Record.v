(* C14: packet records and replay. *)
From RS Require Import Base.Tac Base.Bytes Base.Dyadic Model.Desc Model.Kernels Model.Decoder Model.Driver Model.Oracles.
From RS Require Import Proofs.Stream Proofs.DriverInv Proofs.TimeCodec.
Local Open Scope Z_scope.

(* ---- reading behind a prefix *)
Lemma u8_shift (l1 l2 : bytes) k : 0 <= k -> u8 (l1 ++ l2) (Z.of_nat (length l1) + k) = u8 l2 k.
Proof.
  intros Hk. unfold u8. replace (Z.to_nat (Z.of_nat (length l1) + k)) with (length l1 + Z.to_nat k)%nat by lia.
  rewrite app_nth2 by lia. f_equal. lia.
Qed.

Lemma parse_utc_shift l1 l2 : parse_utc (l1 ++ l2) (Z.of_nat (length l1)) = parse_utc l2 0.
Proof.
  unfold parse_utc, be48, be32, be16. set (n := Z.of_nat (length l1)).
  replace n with (n + 0) at 1 by lia.
  replace (n + 2 + 2 + 1) with (n + 5) by lia. replace (n + 2 + 2) with (n + 4) by lia.
  replace (n + 6 + 2 + 1) with (n + 9) by lia. replace (n + 6 + 2) with (n + 8) by lia.
  replace (n + 2 + 1) with (n + 3) by lia. replace (n + 6 + 1) with (n + 7) by lia.
  subst n. rewrite !u8_shift by lia. reflexivity.
Qed.

Lemma parse_ymd_shift tz l1 l2 : parse_ymd tz (l1 ++ l2) (Z.of_nat (length l1)) = parse_ymd tz l2 0.
Proof.
  unfold parse_ymd, be16. set (n := Z.of_nat (length l1)).
  replace (u8 (l1 ++ l2) n) with (u8 (l1 ++ l2) (n + 0)) by (f_equal; lia).
  replace (n + 6 + 1) with (n + 7) by lia. replace (n + 8 + 1) with (n + 9) by lia.
  subst n. rewrite !u8_shift by lia. reflexivity.
Qed.

Lemma firstn_len (b : bytes) off : 0 <= off <= blen b -> Z.of_nat (length (firstn (Z.to_nat off) b)) = off.
Proof. intros H. unfold blen in H. rewrite firstn_length. lia. Qed.

(* ---- the header written under the host clock decodes (with the LiDAR clock) to the receive time *)
Theorem recorded_utc_time b off t : 0 <= off <= blen b -> 0 <= t < 18446744073709551616 ->
  parse_utc (splice b off (create_utc t)) off = t.
Proof.
  intros Ho Ht. unfold splice.
  pose proof (firstn_len b off Ho) as E. set (l1 := firstn (Z.to_nat off) b) in *.
  transitivity (parse_utc (l1 ++ create_utc t ++ skipn (Z.to_nat off + length (create_utc t)) b) (Z.of_nat (length l1))).
  { f_equal. symmetry. exact E. }
  rewrite parse_utc_shift. apply utc_roundtrip. exact Ht.
Qed.

Theorem recorded_ymd_time tz b off t : 0 <= off <= blen b -> 0 <= t < 18446744073709551616 ->
  DAY_2000 <= (t / 1000000 + tz) / 86400 < DAY_2256 ->
  parse_ymd tz (splice b off (create_ymd tz t)) off = t.
Proof.
  intros Ho Ht Hd. unfold splice.
  pose proof (firstn_len b off Ho) as E. set (l1 := firstn (Z.to_nat off) b) in *.
  transitivity (parse_ymd tz (l1 ++ create_ymd tz t ++ skipn (Z.to_nat off + length (create_ymd tz t)) b) (Z.of_nat (length l1))).
  { f_equal. symmetry. exact E. }
  rewrite parse_ymd_shift. apply ymd_roundtrip; assumption.
Qed.

Lemma parse_ymd_z_shift tz dst l1 l2 : parse_ymd_z tz dst (l1 ++ l2) (Z.of_nat (length l1)) = parse_ymd_z tz dst l2 0.
Proof. unfold parse_ymd_z. rewrite !parse_ymd_shift. reflexivity. Qed.

Theorem recorded_ymd_time_z tz dst b off t : 0 <= off <= blen b -> 0 <= t < 18446744073709551616 -> -86400 <= tz <= 86400 ->
  DAY_2000 <= (t / 1000000 + tz) / 86400 -> (t / 1000000 + tz + DST_SAVE) / 86400 < DAY_2256 -> unambiguous dst t ->
  parse_ymd_z tz dst (splice b off (create_ymd_z tz dst t)) off = t.
Proof.
  intros Ho Ht Htz Hlo Hhi Hu. unfold splice.
  pose proof (firstn_len b off Ho) as E. set (l1 := firstn (Z.to_nat off) b) in *.
  transitivity (parse_ymd_z tz dst (l1 ++ create_ymd_z tz dst t ++ skipn (Z.to_nat off + length (create_ymd_z tz dst t)) b) (Z.of_nat (length l1))).
  { f_equal. symmetry. exact E. }
  rewrite parse_ymd_z_shift. apply ymd_roundtrip_z; assumption.
Qed.

(* recording configuration (host clock, packet callback) and replay configuration (LiDAR clock) *)
Definition replay_cfg (c : dcfg) : dcfg :=
  mk_dcfg (c_wait_for_difop c) (c_dense c) (c_split_mode c) (c_split_angle c) (c_num_blks c) (c_min_dist c) (c_max_dist c)
          (c_start_angle c) (c_end_angle c) true (c_ts_first c) (c_pkt_cb c) (c_tz c) (c_user c) (c_tail c) (c_from_file c) (c_dst c).

(* T3 (time half): the packet time of the replayed record = receive time = original packet time +
   one packet duration, exactly (the codec loses nothing at microsecond resolution) *)
Theorem replay_time_offset d c variant b h :
  c_lidar_clock c = false -> c_pkt_cb c = true ->
  0 <= d_off_ts d <= blen b -> 0 <= h < 18446744073709551616 ->
  (uses_utc d variant = false -> -86400 <= c_tz c <= 86400 /\ DAY_2000 <= (h / 1000000 + c_tz c) / 86400 /\
                                 (h / 1000000 + c_tz c + DST_SAVE) / 86400 < DAY_2256 /\ unambiguous (c_dst c) h) ->
  let rec := pkt_time d c variant b 0 h h in
  d_family d = Mech ->
  fst (pkt_time d (replay_cfg c) variant (snd rec) 0 0 0) = fst rec + d_packet_duration_ns d.
Proof.
  intros Hl Hp Ho Hh Hd. cbv zeta. intros Hf. unfold pkt_time. rewrite Hl, Hp, Hf. cbn [fst snd replay_cfg c_lidar_clock c_tz c_dst].
  replace (0 + d_off_ts d) with (d_off_ts d) by lia.
  change (skipn (Z.to_nat 0) ?x) with x.
  destruct (uses_utc d variant) eqn:E.
  - rewrite (recorded_utc_time b (d_off_ts d) h Ho Hh). lia.
  - destruct (Hd eq_refl) as (Htz & Hlo & Hhi & Hu).
    rewrite (recorded_ymd_time_z (c_tz c) (c_dst c) b (d_off_ts d) h Ho Hh Htz Hlo Hhi Hu). lia.
Qed.

(* ---- T1: what the packet callback receives *)
Lemma pkt_record_msop bl tbl v th now host b stale :
  ev_is_msop_b b stale = true -> c_pkt_cb (v_cfg v) = true ->
  let r := process_msop bl tbl v th now host b in
  exists o1, snd (process_packet bl tbl v th now host b stale) =
    o1 ++ [OPkt (v_pkt_seq (fst (fst (fst (fst r))))) false (snd (fst r)) (s_prev_pkt_ts (v_dec (fst (fst (fst (fst r)))))) (snd r)].
Proof.
  unfold ev_is_msop_b. intros He Hc. cbv zeta. unfold process_packet. cbv zeta. rewrite He.
  pose proof (inv_process_msop bl tbl v th now host b) as Hi. cbv zeta in Hi.
  destruct (process_msop bl tbl v th now host b) as [[[[v1 th1] o1] ret] b']. cbn [fst snd] in *.
  destruct Hi as (_ & _ & Hcfg).
  unfold run_pkt_cb. rewrite Hcfg, Hc. cbn [fst snd]. exists o1. reflexivity.
Qed.
