(* Extraction of the executable model.  ExtrOcamlBasic only; Z/positive/N/nat stay the extracted
   inductives. No Extract Constant of our own. *)
From Coq Require Import ZArith List Bool.
Require Import ExtrOcamlBasic.
From RS Require Import Base.Bytes Base.Dyadic Model.Desc Model.Kernels Model.Spec Model.Decoder Model.Driver Model.Input Model.Scenario Model.Lifecycle.
From RS Require Import Gen.Params_gen Gen.Kernels_gen.
Extraction Language OCaml.
Extraction "model.ml"
  Scenario.run Scenario.world0 Scenario.step
  Params_gen.desc_by_type Params_gen.all_descs Params_gen.g_crc_table Params_gen.g_err_codes
  Kernels.split_angle_step Kernels.split_angle_step_legacy Kernels.split_num_step Kernels.seq_step Kernels.seq_init Kernels.seq_max_seq
  Kernels.az_section_init Kernels.az_in Kernels.az_in_raw Kernels.angle_check Kernels.temp_le Kernels.temp_be
  Spec.crossesb Spec.rewindb Spec.in_windowb
  Kernels_gen.SplitStrategyByAngle_newBlock Kernels_gen.SplitStrategyByNum_newBlock Kernels_gen.SplitStrategyBySeq_newPacket
  Kernels_gen.SplitStrategyBySeq_maxSeq Kernels_gen.AzimuthSection_ctor Kernels_gen.AzimuthSection_in_ Kernels_gen.fn_parseTempInLe Kernels_gen.fn_parseTempInBe Kernels_gen.fn_parseTimeUTCWithUs Kernels_gen.fn_createTimeUTCWithUs Kernels_gen.Trigon_sin Kernels_gen.Trigon_cos Decoder.trig_idx
  Params_gen.g_TRIG_SIN_LO Params_gen.g_TRIG_SIN_LEN Params_gen.g_TRIG_COS_LO Params_gen.g_TRIG_COS_LEN
  Dyadic.dy_mul_r Dyadic.dy_of_Z Dyadic.dy_trunc Decoder.parse_ymd Decoder.create_ymd Decoder.parse_utc Decoder.create_utc
  Driver.crc_calc Driver.crc_ok Driver.overflow_guard
  Lifecycle.lstep Lifecycle.lnone
  Input.bpf_udp Input.pcap_extract Input.sock_extract Input.parse_frag Input.jumbo_step Input.jumbo_run Input.raw_feed.
