(* Extraction of the queue/pipeline model for the trace validator.  ExtrOcamlBasic only. *)
From Coq Require Import ZArith List Bool.
Require Import ExtrOcamlBasic.
From RS Require Import Model.Queue.
Extraction Language OCaml.
Extraction "qmodel.ml" Queue.step Queue.init Queue.run Queue.POOL_MAX.
