"""compare.py - tolerant comparison of canonical output files (impl vs model), per scenario,
optionally restricted to the projection a property speaks about."""
import math

TS_ABS = 1.0e-6      # 1 us
XYZ_ABS = 1.0e-3     # 1 mm
XYZ_REL = 2.0 ** -20


def close_ts(a, b):
    return abs(a - b) <= TS_ABS + 4e-16 * max(abs(a), abs(b))


def close_xyz(a, b):
    if math.isnan(a) or math.isnan(b):
        return math.isnan(a) and math.isnan(b)
    return abs(a - b) <= XYZ_ABS + XYZ_REL * max(abs(a), abs(b))


def split_scenarios(path):
    """yield (name, [lines]) per scenario; lines outside scenarios go under name None"""
    cur = None
    name = None
    outside = []
    with open(path) as f:
        for line in f:
            line = line.rstrip('\n')
            if not line:
                continue
            if line.startswith('S '):
                name = line[2:]
                cur = []
            elif line == 'E' and cur is not None:
                yield name, cur
                cur = None
            elif cur is not None:
                cur.append(line)
            else:
                outside.append(line)
    if outside:
        yield None, outside


# field-wise comparison; `proj` is a dict of options:
#   kinds: set of line kinds to keep (None = all); ignore_ts, ignore_xyz, ignore_err_codes...
def line_equal(a, b, proj):
    if a == b:
        return True
    ta, tb = a.split(), b.split()
    if not ta or not tb or ta[0] != tb[0] or len(ta) != len(tb):
        return False
    k = ta[0]
    try:
        if k == 'p':
            if ta[1] != tb[1]:
                return False
            if proj.get('xyz_rigid_tol') and not proj.get('ignore_xyz'):
                # points that went through the rigid transform: the error vector of the projection (1 mm + 2^-20 per
                # component) is rotated with the point, so each component is judged against the length of the whole vector
                va = [float(ta[i]) for i in (2, 3, 4)]; vb = [float(tb[i]) for i in (2, 3, 4)]
                if any(math.isnan(v) for v in va + vb):
                    if not all(math.isnan(v) for v in va + vb):
                        return False
                else:
                    norm = math.sqrt(sum(v * v for v in vb)) + proj['xyz_rigid_tol']
                    tol = 2.0 * XYZ_ABS + 2.0 * XYZ_REL * norm
                    if any(abs(x - y) > tol for x, y in zip(va, vb)):
                        return False
            elif not proj.get('ignore_xyz'):
                for i in (2, 3, 4):
                    if not close_xyz(float(ta[i]), float(tb[i])):
                        return False
            if ta[5] != tb[5] and not proj.get('ignore_intensity'):
                return False
            if ta[6] != tb[6] and not proj.get('ignore_ring'):
                return False
            if not proj.get('ignore_ts') and not close_ts(float(ta[7]), float(tb[7])):
                return False
            return True
        if k == 'cloud':
            for i in (1, 2, 3, 4, 5, 6, 8):
                if ta[i] != tb[i]:
                    if i == 3 and proj.get('ignore_buf'):
                        continue
                    return False
            return proj.get('ignore_ts') or close_ts(float(ta[7]), float(tb[7]))
        if k == 'pkt':
            for i in (1, 2, 3, 4, 6):
                if ta[i] != tb[i]:
                    return False
            if not proj.get('ignore_pkt_bytes') and ta[7:] != tb[7:]:
                return False
            return proj.get('ignore_ts') or close_ts(float(ta[5]), float(tb[5]))
        if k == 'temp':
            return ta[1] == tb[1] and ta[2] == tb[2] and abs(float(ta[3]) - float(tb[3])) <= 1e-3
    except (ValueError, IndexError):
        return False
    return False


def project(lines, proj):
    kinds = proj.get('kinds')
    out = []
    for l in lines:
        k = l.split(' ', 1)[0]
        if kinds is not None and k not in kinds:
            continue
        if k == 'p' and proj.get('drop_points'):
            continue
        if k == 'err' and proj.get('err_codes') is not None and l.split()[2] not in proj['err_codes']:
            continue
        if k == 'ierr' and l.split()[2] == '64':
            continue        # MSOPTIMEOUT depends on wall-clock silence (e.g. the last select() before stop())
        if k == 'k':
            # model side carries "| spec ... | gen ..." suffixes
            l = l.split(' | ')[0]
        out.append(l)
    if proj.get('ierr_last'):
        # reports of the input thread are not ordered w.r.t. the decode thread's callbacks: compare them after everything else
        out = [l for l in out if not l.startswith('ierr')] + sorted(l for l in out if l.startswith('ierr'))
    return out


def compare_scenario(impl_lines, model_lines, proj):
    """returns None if equal under proj, else (index, impl_line, model_line)"""
    a = project(impl_lines, proj)
    b = project(model_lines, proj)
    n = min(len(a), len(b))
    for i in range(n):
        if not line_equal(a[i], b[i], proj):
            return (i, a[i][:300], b[i][:300])
    if len(a) != len(b):
        return (n, a[n][:300] if len(a) > n else '<end>', b[n][:300] if len(b) > n else '<end>')
    return None


def compare_files(impl_path, model_path, proj=None):
    proj = proj or {}
    res = {'scenarios': 0, 'mismatch': []}
    mi = dict(split_scenarios(model_path))
    for name, lines in split_scenarios(impl_path):
        res['scenarios'] += 1
        d = compare_scenario(lines, mi.get(name, []), proj)
        if d is not None:
            res['mismatch'].append((name, d))
    return res


if __name__ == '__main__':
    import sys
    r = compare_files(sys.argv[1], sys.argv[2])
    print(r['scenarios'], 'scenarios', len(r['mismatch']), 'mismatches')
    for m in r['mismatch'][:20]:
        print(m)
