"""Process time zones WITH daylight saving, as POSIX TZ rules, and their daylight periods in UTC seconds.

The harness sets TZ to the rule (glibc applies it through mktime / localtime); the model is given the periods (directive TZD).
Both views are computed here from the same rule; a mistake in this file shows as a disagreement between glibc and the model
on the K parse_ymd / create_ymd kernels, which sweep the instants around every kind of transition."""
import calendar

SAVE = 3600

# (rule, standard offset east of UTC, start (month, week, weekday, local STANDARD seconds of day), end (month, week, weekday, local DAYLIGHT seconds of day))
ZONES = {
    'europe':   ('CET-1CEST,M3.5.0,M10.5.0/3', 3600, (3, 5, 0, 7200), (10, 5, 0, 10800)),
    'us-east':  ('EST5EDT,M3.2.0,M11.1.0', -18000, (3, 2, 0, 7200), (11, 1, 0, 7200)),
    'sydney':   ('AEST-10AEDT,M10.1.0,M4.1.0/3', 36000, (10, 1, 0, 7200), (4, 1, 0, 10800)),
}


def _mwd(year, month, week, wday):
    """day of month of POSIX Mm.w.d (d: 0 = Sunday; w: 1..4, 5 = last)"""
    first = calendar.weekday(year, month, 1)            # Monday = 0
    first_posix = (first + 1) % 7                      # Sunday = 0
    day = 1 + (wday - first_posix) % 7 + 7 * (week - 1)
    while day > calendar.monthrange(year, month)[1]:
        day -= 7
    return day


def _epoch(year, month, day, sod):
    return calendar.timegm((year, month, day, 0, 0, 0)) + sod


def periods(zone, y0=1999, y1=2257):
    rule, std, st, en = ZONES[zone]
    out = []
    for y in range(y0, y1):
        a = _epoch(y, st[0], _mwd(y, *st[:3]), st[3]) - std
        ye = y if en[0] > st[0] else y + 1               # southern hemisphere: daylight saving ends in the next year
        b = _epoch(ye, en[0], _mwd(ye, *en[:3]), en[3]) - std - SAVE
        out.append((a, b))
    return out


def std_offset(zone):
    return ZONES[zone][1]


def line(zone):
    p = periods(zone)
    return f'TZD {ZONES[zone][0]} {len(p)} ' + ' '.join(f'{a} {b}' for a, b in p)


def offset_at(zone, t):
    """offset east of UTC in force at UTC second t"""
    std = ZONES[zone][1]
    return std + (SAVE if any(a <= t < b for a, b in periods(zone)) else 0)


def unambiguous(zone, t):
    """the calendar time of UTC second t names only this instant (t is not inside the hour repeated when daylight saving ends,
    nor inside the hour before it - the two hours share their calendar times)"""
    return not any(b - SAVE <= t < b + SAVE for a, b in periods(zone))


def ymd_fields(zone, t_us):
    """(yy, mo, dd, hh, mi, ss, ms, us) as createTimeYMD writes them for instant t_us in the zone"""
    import time
    sec = t_us // 1000000
    g = time.gmtime(sec + offset_at(zone, sec))
    return ((g.tm_year - 2000) % 256, g.tm_mon, g.tm_mday, g.tm_hour, g.tm_min, g.tm_sec, (t_us // 1000) % 1000, t_us % 1000)


def interesting_instants(zone, rng, n):
    """UTC seconds around the transitions (both sides, not ambiguous) and inside summer / winter, years 2000..2255"""
    p = periods(zone)
    out = []
    for _ in range(n):
        a, b = rng.choice([q for q in p if 946684800 + 86400 < q[0] and q[1] < 9000000000])
        t = rng.choice([a - 1, a, a + 1, a - 3600, a + 3600, a + 3599, b - 3601, b + 3600, b + 3601, b + 7200,
                        (a + b) // 2, a + rng.randrange(1, b - a - 3600), b + rng.randrange(3600, 86400 * 100)])
        if unambiguous(zone, t):
            out.append(t)
    return out
