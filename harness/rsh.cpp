// rsh.cpp - correspondence harness: drives the REAL rs_driver code (headers from /repo's working
// tree) on the shared scenario format and prints canonical output lines (same format as
// ocaml/driver.ml).  One forked child per scenario: fresh function-local statics (error throttles,
// INIT_ONLY_ONCE tables), crash isolation (sanitizer aborts / signals are reported as `crash`).
#include <cstdint>
#include <cstddef>
#include <cstring>
#include <cstdio>
#include <cstdlib>
#include <cmath>
#include <ctime>
#include <string>
#include <vector>
#include <map>
#include <set>
#include <memory>
#include <functional>
#include <iostream>
#include <sstream>
#include <fstream>
#include <thread>
#include <mutex>
#include <queue>
#include <atomic>
#include <condition_variable>
#include <chrono>
#include <algorithm>
#include <iomanip>
#include <unistd.h>
#include <sys/stat.h>
#include <sys/wait.h>
#include <sys/syscall.h>
#include <arpa/inet.h>
#include <pcap.h>
#ifdef ENABLE_TRANSFORM
#include <Eigen/Dense>
#endif

#define private public
#define protected public
#include <rs_driver/api/lidar_driver.hpp>
#include <rs_driver/msg/point_cloud_msg.hpp>
#undef private
#undef protected

using namespace robosense::lidar;
typedef PointXYZIRT PT;
typedef PointCloudT<PT> PC;

// ---------------------------------------------------------------- interposed clocks
static std::atomic<bool> g_fake_clock(false);
static std::atomic<uint64_t> g_host_us(0);
static std::atomic<time_t> g_wall(0);
static std::atomic<bool> g_fake_wall(false);
extern "C" int clock_gettime(clockid_t id, struct timespec* ts)
{
  if (g_fake_clock && id == CLOCK_REALTIME)
  {
    ts->tv_sec = g_host_us / 1000000;
    ts->tv_nsec = (g_host_us % 1000000) * 1000;
    return 0;
  }
  return (int)syscall(SYS_clock_gettime, id, ts);
}
extern "C" time_t time(time_t* t)
{
  time_t v;
  if (g_fake_wall) v = g_wall;
  else { struct timespec ts; syscall(SYS_clock_gettime, CLOCK_REALTIME, &ts); v = ts.tv_sec; }
  if (t) *t = v;
  return v;
}

// ---- descriptor bookkeeping (C11): close() of a descriptor that no socket()/epoll_create() of this process returned
static std::mutex g_fd_mtx;
static std::set<int> g_fds_open;
static std::atomic<int> g_badclose(0);
static std::atomic<bool> g_fd_track(false);
extern "C" int socket(int domain, int type, int protocol)
{
  int fd = (int)syscall(SYS_socket, domain, type, protocol);
  if (fd >= 0) { std::lock_guard<std::mutex> lg(g_fd_mtx); g_fds_open.insert(fd); }
  return fd;
}
extern "C" int epoll_create(int size)
{
  int fd = (int)syscall(SYS_epoll_create1, 0); (void)size;
  if (fd >= 0) { std::lock_guard<std::mutex> lg(g_fd_mtx); g_fds_open.insert(fd); }
  return fd;
}
extern "C" int close(int fd)
{
  if (g_fd_track)
  {
    std::lock_guard<std::mutex> lg(g_fd_mtx);
    if (!g_fds_open.erase(fd)) g_badclose++;
  }
  return (int)syscall(SYS_close, fd);
}

static FILE* OUT = stdout;
static std::recursive_mutex g_out_mtx;
// prints of the scenario thread while worker threads may be inside (multi-part) callback prints
#define LOCKED_PRINT(...) do { std::lock_guard<std::recursive_mutex> lg_(g_out_mtx); fprintf(OUT, __VA_ARGS__); } while (0)      // callbacks may come from the receive and the decode thread
static std::atomic<int> g_pcap_exit(0), g_pcap_repeat(0);
static std::mutex g_wd_mtx; static std::string g_wd_cmd;   // watchdog (WD): the directive being executed

static std::vector<std::string> split_ws(const std::string& s)
{
  std::vector<std::string> r; std::istringstream is(s); std::string t;
  while (is >> t) r.push_back(t);
  return r;
}
static std::vector<uint8_t> unhex(const std::string& h)
{
  std::vector<uint8_t> v(h.size() / 2);
  auto nib = [](char c) { return (c >= '0' && c <= '9') ? c - '0' : (c >= 'a' && c <= 'f') ? c - 'a' + 10 : c - 'A' + 10; };
  for (size_t i = 0; i < v.size(); i++) v[i] = (uint8_t)(nib(h[2 * i]) * 16 + nib(h[2 * i + 1]));
  return v;
}
static void hexout(const uint8_t* p, size_t n)
{
  static const char* d = "0123456789abcdef";
  std::string s(2 * n, '0');
  for (size_t i = 0; i < n; i++) { s[2 * i] = d[p[i] >> 4]; s[2 * i + 1] = d[p[i] & 15]; }
  fputs(s.c_str(), OUT);
}

static void print_point(const PT& p)
{
  if (std::isnan(p.x) || std::isnan(p.y) || std::isnan(p.z))
    fprintf(OUT, "p 0 nan nan nan %d %d %.9f\n", (int)p.intensity, (int)p.ring, p.timestamp);
  else
    fprintf(OUT, "p 1 %.6f %.6f %.6f %d %d %.9f\n", p.x, p.y, p.z, (int)p.intensity, (int)p.ring, p.timestamp);
}

// ---------------------------------------------------------------- kernels
// init() takes its parameters by const reference: the caller may pass a temporary, or reuse and change the object for its next
// LiDAR. The object handed over here is overwritten and freed as soon as init() returns; a driver that kept a pointer or
// reference into it (instead of its own copy) reads freed memory (reported by ASan) or another configuration.
template <typename D>
static bool init_from_temporary(D& drv, const RSDriverParam& src)
{
  RSDriverParam* q = new RSDriverParam(src);
  bool ok = drv.init(*q);
  q->input_param.pcap_path = "/nonexistent/overwritten-after-init.pcap"; q->input_param.pcap_repeat = !q->input_param.pcap_repeat;
  q->input_param.msop_port = 1; q->input_param.difop_port = 2; q->input_param.use_vlan = !q->input_param.use_vlan;
  q->input_param.user_layer_bytes = 77; q->input_param.tail_layer_bytes = 33; q->input_param.host_address = "203.0.113.1"; q->input_param.group_address = "239.1.2.3";
  q->decoder_param.min_distance = 50.0f; q->decoder_param.max_distance = 51.0f; q->decoder_param.start_angle = 10.0f; q->decoder_param.end_angle = 11.0f;
  q->decoder_param.dense_points = !q->decoder_param.dense_points; q->decoder_param.use_lidar_clock = !q->decoder_param.use_lidar_clock;
  q->decoder_param.num_blks_split = 7; q->decoder_param.split_angle = 123.0f; q->frame_id = "overwritten";
  delete q;
  return ok;
}

// TZD directive: the process time zone is a POSIX rule with daylight saving (its standard offset is the tz field of the D / K lines)
static std::string g_tz_rule;
static void set_tz(long tz)
{
  if (!g_tz_rule.empty()) { setenv("TZ", g_tz_rule.c_str(), 1); tzset(); return; }
  char buf[64];
  long a = tz < 0 ? -tz : tz;
  snprintf(buf, sizeof buf, "VRF%c%ld:%02ld:%02ld", tz >= 0 ? '-' : '+', a / 3600, (a % 3600) / 60, a % 60);
  setenv("TZ", buf, 1);
  tzset();
}

static void kernel(const std::vector<std::string>& t)
{
  auto L = [&](size_t i) { return atoll(t[i].c_str()); };
  const std::string& k = t[1];
  if (k == "angle")
  {
    SplitStrategyByAngle s((int32_t)L(2)); s.prev_angle_ = (int32_t)L(3);
    bool r = s.newBlock((int32_t)L(4));
    fprintf(OUT, "k angle %d %d\n", (int)r, (int)s.prev_angle_);
  }
  else if (k == "num")
  {
    uint16_t n = (uint16_t)L(2);
    SplitStrategyByNum s(&n); s.blks_ = (uint16_t)L(3);
    bool r = s.newBlock(0);
    fprintf(OUT, "k num %d %d\n", (int)r, (int)s.blks_);
  }
  else if (k == "seq")
  {
    SplitStrategyBySeq s; s.prev_seq_ = (uint16_t)L(2); s.max_seq_ = (uint16_t)L(3); s.looped_ = L(4) != 0; s.setSafeRange();
    bool r = s.newPacket((uint16_t)L(5));
    fprintf(OUT, "k seq %d %d %d %d %d\n", (int)r, (int)s.prev_seq_, (int)s.max_seq_, (int)s.looped_, (int)s.maxSeq());
  }
  else if (k == "azin")
  {
    AzimuthSection a((int32_t)L(2), (int32_t)L(3));
    fprintf(OUT, "k azin %d\n", (int)a.in((int32_t)L(4)));
  }
  else if (k == "temple" || k == "tempbe")
  {
    RSTemperature tt; tt.tt[0] = (uint8_t)L(2); tt.tt[1] = (uint8_t)L(3);
    fprintf(OUT, "k %s %d\n", k.c_str(), (int)(k == "temple" ? parseTempInLe(&tt) : parseTempInBe(&tt)));
  }
  else if (k == "trig")
  {
    // Trigon::sin / cos of an arbitrary int32 angle, in a child of its own: an index outside the tables may fault
    fflush(OUT);
    pid_t pid = fork();
    if (pid == 0)
    {
      static Trigon tg;
      float sv = tg.sin((int32_t)L(2)), cv = tg.cos((int32_t)L(2));
      uint32_t sb, cb; memcpy(&sb, &sv, 4); memcpy(&cb, &cv, 4);
      fprintf(OUT, "k trig %u %u\n", sb, cb);
      fflush(OUT);
      _exit(0);
    }
    int st = 0; waitpid(pid, &st, 0);
    fseek(OUT, 0, SEEK_END);
    if (!(WIFEXITED(st) && WEXITSTATUS(st) == 0)) fprintf(OUT, "k trig crash %d\n", WIFSIGNALED(st) ? WTERMSIG(st) : WEXITSTATUS(st));
  }
  else if (k == "anglecheck") fprintf(OUT, "k anglecheck %d\n", (int)ChanAngles::angleCheck((int32_t)L(2)));
  else if (k == "parse_utc")
  {
    auto b = unhex(t[2]);
    fprintf(OUT, "k parse_utc %llu\n", (unsigned long long)parseTimeUTCWithUs((const RSTimestampUTC*)b.data()));
  }
  else if (k == "create_utc")
  {
    RSTimestampUTC u; createTimeUTCWithUs(strtoull(t[2].c_str(), 0, 10), &u);
    fputs("k create_utc ", OUT); hexout((uint8_t*)&u, sizeof u); fputs("\n", OUT);
  }
  else if (k == "parse_ymd")
  {
    set_tz(L(2)); auto b = unhex(t[3]);
    fprintf(OUT, "k parse_ymd %llu\n", (unsigned long long)parseTimeYMD((const RSTimestampYMD*)b.data()));
  }
  else if (k == "parse_ymdz" || k == "create_ymdz")
  {
    // K parse_ymdz <std offset> <hex> <posix rule> <n> <periods..> / K create_ymdz <std offset> <us> <posix rule> ...: zone with daylight saving
    g_tz_rule = t[4]; set_tz(L(2));
    if (k == "parse_ymdz")
    {
      auto b = unhex(t[3]);
      fprintf(OUT, "k parse_ymd %llu\n", (unsigned long long)parseTimeYMD((const RSTimestampYMD*)b.data()));
    }
    else
    {
      RSTimestampYMD y; createTimeYMD(strtoull(t[3].c_str(), 0, 10), &y);
      fputs("k create_ymd ", OUT); hexout((uint8_t*)&y, sizeof y); fputs("\n", OUT);
    }
    g_tz_rule.clear();
  }
  else if (k == "create_ymd")
  {
    set_tz(L(2)); RSTimestampYMD y; createTimeYMD(strtoull(t[3].c_str(), 0, 10), &y);
    fputs("k create_ymd ", OUT); hexout((uint8_t*)&y, sizeof y); fputs("\n", OUT);
  }
  else if (k == "crc")
  {
    auto b = unhex(t[2]);
    fprintf(OUT, "k crc %u\n", calcCrc32(b.data(), (uint32_t)b.size(), 0, true));
  }
  else if (k == "crcok")
  {
    auto b = unhex(t[2]);
    fprintf(OUT, "k crcok %d\n", (int)isCrc32Correct(b.data(), b.size()));
  }
  else if (k == "bpf")
  {
    // K bpf <vlan> <port|-1> <hex frame>: what libpcap's compiled filter says about the frame
    std::vector<uint8_t> f = t.size() > 4 ? unhex(t[4]) : std::vector<uint8_t>();
    pcap_t* pd = pcap_open_dead(DLT_EN10MB, 262144);
    std::ostringstream fs;
    if (L(2)) fs << "vlan && ";
    if (L(3) >= 0) fs << "udp dst port " << L(3); else fs << "udp";
    bpf_program prog;
    int rc = pcap_compile(pd, &prog, fs.str().c_str(), 1, 0xFFFFFFFF);
    struct pcap_pkthdr h; memset(&h, 0, sizeof h); h.caplen = h.len = (uint32_t)f.size();
    static const uint8_t none = 0;
    int m = rc == 0 ? pcap_offline_filter(&prog, &h, f.empty() ? &none : f.data()) : -1;
    fprintf(OUT, "k bpf %d\n", m != 0 ? 1 : 0);
    if (rc == 0) pcap_freecode(&prog);
    pcap_close(pd);
  }
  else if (k == "direct")
  {
    // K direct <type code> <wait 0/1> <hex packets separated by ','>: a decoder driven directly (no driver, no
    // input layer); every packet lives in a heap buffer of exactly its size, so ASan sees any over-read
    RSDecoderParam p; p.wait_for_difop = L(3) != 0; p.use_lidar_clock = true;
    auto d = DecoderFactory<PC>::createDecoder((LidarType)L(2), p);
    d->point_cloud_ = std::make_shared<PC>();
    size_t clouds = 0, errs = 0;
    d->regCallback([&](const Error&) { errs++; }, [&](uint16_t, double) { clouds++; d->point_cloud_->points.clear(); });
    std::string all = t.size() > 4 ? t[4] : "";
    size_t pos = 0; size_t n = 0;
    while (pos <= all.size())
    {
      size_t q = all.find(',', pos); if (q == std::string::npos) q = all.size();
      std::vector<uint8_t> b = unhex(all.substr(pos, q - pos));
      uint8_t* heap = (uint8_t*)malloc(b.size() ? b.size() : 1);   // exact-size heap block
      if (b.size()) memcpy(heap, b.data(), b.size());
      if (b.size() >= 2 && heap[0] == 0xA5 && heap[1] == 0xFF) d->processDifopPkt(heap, b.size());
      else d->processMsopPkt(heap, b.size());
      free(heap);
      n++; pos = q + 1;
    }
    fprintf(OUT, "k direct %zu\n", n);
  }
  else if (k == "overflow")
  {
    // does processMsopPkt discard an open frame of n points?  (packet of a wrong length: nothing else happens)
    RSDecoderParam p; p.wait_for_difop = false;
    auto d = DecoderFactory<PC>::createDecoder(LidarType::RSM1, p);
    d->point_cloud_ = std::make_shared<PC>();
    d->point_cloud_->points.resize((size_t)L(2));
    d->regCallback([](const Error&) {}, [](uint16_t, double) {});
    uint8_t b[2] = {0x55, 0xAA};
    d->processMsopPkt(b, 2);
    fprintf(OUT, "k overflow %d\n", (int)(d->point_cloud_->points.size() == 0 && L(2) != 0));
  }
  else if (k == "overflow2")
  {
    // K overflow2 type1 n1 type2 n2 dt : two decoders in one process, open frames of n1 / n2 points; an MSOP-dispatched packet reaches
    // the first at wall-clock second 1000 and the second dt seconds later, then the first once more (refilled) dt seconds after that.
    // Which of the three frames were discarded?  (own child process: the report throttles are process-wide statics)
    fflush(OUT);
    pid_t pid = fork();
    if (pid == 0)
    {
      g_fake_wall = true; g_wall = 1000;
      RSDecoderParam p; p.wait_for_difop = false;
      auto d1 = DecoderFactory<PC>::createDecoder((LidarType)L(2), p);
      auto d2 = DecoderFactory<PC>::createDecoder((LidarType)L(4), p);
      int nerr = 0;
      d1->regCallback([&nerr](const Error&) { nerr++; }, [](uint16_t, double) {});
      d2->regCallback([&nerr](const Error&) { nerr++; }, [](uint16_t, double) {});
      d1->point_cloud_ = std::make_shared<PC>(); d2->point_cloud_ = std::make_shared<PC>();
      d1->point_cloud_->points.resize((size_t)L(3)); d2->point_cloud_->points.resize((size_t)L(5));
      uint8_t b[2] = {0x55, 0xAA};
      d1->processMsopPkt(b, 2);
      int r1 = d1->point_cloud_->points.size() == 0 && L(3) != 0;
      g_wall = 1000 + (time_t)L(6);
      d2->processMsopPkt(b, 2);
      int r2 = d2->point_cloud_->points.size() == 0 && L(5) != 0;
      d1->point_cloud_->points.resize((size_t)L(3));
      g_wall = 1000 + 2 * (time_t)L(6);
      d1->processMsopPkt(b, 2);
      int r3 = d1->point_cloud_->points.size() == 0 && L(3) != 0;
      fprintf(OUT, "k overflow2 %d %d %d\n", r1, r2, r3);
      fflush(OUT);
      _exit(0);
    }
    int st = 0; waitpid(pid, &st, 0);
    fseek(OUT, 0, SEEK_END);
    if (!(WIFEXITED(st) && WEXITSTATUS(st) == 0)) fprintf(OUT, "k overflow2 crash %d\n", WIFSIGNALED(st) ? WTERMSIG(st) : WEXITSTATUS(st));
  }
  else fprintf(OUT, "k ? %s\n", k.c_str());
}

// ---------------------------------------------------------------- scenario driver instances
// ---- C10/C11: queue trace (events reported by the guarded hooks of the library, in one total order)
struct QRec { int thr; char ev; char q; uintptr_t ptr; size_t a; };
static std::vector<QRec> g_q_rec;
static std::mutex g_q_mtx;
static const void *g_q_free = nullptr, *g_q_stuffed = nullptr, *g_q_impl = nullptr;
static bool g_q_perturb = false;
static thread_local int t_role = -1;             // producer index of the calling thread; -1: a thread of the library
static thread_local uint64_t t_rng = 0;
static void q_record(int thr, char ev, char q, uintptr_t ptr, size_t a)
{
  std::lock_guard<std::mutex> lg(g_q_mtx);
  g_q_rec.push_back(QRec{thr, ev, q, ptr, a});
}
static void q_hook(const void* obj, char ev, const void* item, size_t a)
{
  char q = (obj == g_q_free) ? 'F' : (obj == g_q_stuffed) ? 'S' : (obj == g_q_impl) ? 'D' : '?';
  if (q == '?') return;
  q_record(t_role, ev, q, (uintptr_t)item, a);
  // perturb the schedule at the points that are outside the queues' critical sections
  if (g_q_perturb && (ev == 'g' || ev == 'n' || ev == 'd' || ev == 'e' || ev == 'V'))
  {
    if (!t_rng) t_rng = 0x9E3779B97F4A7C15ull ^ ((uint64_t)(t_role + 2) * 0xD1B54A32D192ED03ull) ^ (uint64_t)g_q_rec.size();
    t_rng ^= t_rng << 13; t_rng ^= t_rng >> 7; t_rng ^= t_rng << 17;
    unsigned r = (unsigned)(t_rng >> 33) % 16;
    if (r < 4) std::this_thread::yield();
    else if (r == 4) std::this_thread::sleep_for(std::chrono::microseconds(50));
  }
}
static std::vector<uint8_t> q_packet(uint32_t tag)
{
  std::vector<uint8_t> b(64);
  if (tag & 1) { b[0] = 0xA5; b[1] = 0xFF; } else { b[0] = 0x55; b[1] = 0xAA; }     // both dispatch branches
  b[2] = (uint8_t)(tag >> 24); b[3] = (uint8_t)(tag >> 16); b[4] = (uint8_t)(tag >> 8); b[5] = (uint8_t)tag;
  for (size_t k = 6; k < b.size(); k++) b[k] = (uint8_t)(tag * 31u + k * 7u);
  return b;
}

struct Inst
{
  int idx;
  RSDriverParam param;
  std::vector<std::string> answers; size_t next_answer = 0; int fresh = 0;
  std::map<int, std::shared_ptr<PC>> bufs;
  std::unique_ptr<LidarDriver<PC>> drv;
  bool pktcb = false;
  bool qmode = false; int slow_us = 0; std::atomic<long> qdecoded{0};
  // lifecycle runs (C11)
  std::atomic<bool> lmode{false}; std::atomic<bool> stopped{false}; std::atomic<long> npkt{0}; std::string lpath; RSDriverParam lparam;
  // background feeder (LB / LY): a caller's thread that keeps calling decodePacket() while lifecycle calls are made
  std::thread bg; std::atomic<bool> bg_stop{false};
  void stop_bg() { if (bg.joinable()) { bg_stop = true; bg.join(); } }
  ~Inst() { stop_bg(); drv.reset(); if (!lpath.empty()) unlink(lpath.c_str()); }
  void late(const char* what) { if (stopped) { std::lock_guard<std::recursive_mutex> lg(g_out_mtx); fprintf(OUT, "late %d %s\n", idx, what); } }

  int id_of(const std::shared_ptr<PC>& p) { for (auto& kv : bufs) if (kv.second == p) return kv.first; return -1; }
  // input configuration (N line)
  int in_mode = 0; int msop_port = 0, difop_port = 0; bool vlan = false, repeat = false; float rate = 1000000.0f;
  std::vector<std::pair<uint32_t, std::vector<uint8_t>>> frames;   // pcap records (len, captured bytes)
  bool cut_file = false;                                             // FT: the capture file ends in the middle of its last record
  std::vector<std::pair<int, std::vector<uint8_t>>> dgrams;         // (port, payload)
  std::shared_ptr<PC> get()
  {
    late("get");
    std::lock_guard<std::recursive_mutex> lg(g_out_mtx);
    if (next_answer < answers.size())
    {
      std::string a = answers[next_answer++];
      if (a == "N")
      {
        fprintf(OUT, "get %d N\n", idx);
        if (lmode) std::this_thread::sleep_for(std::chrono::milliseconds(1));   // real threads: a dry pool stays dry for a while
        return nullptr;
      }
      int id = atoi(a.c_str());
      auto it = bufs.find(id);
      if (it == bufs.end()) { bufs[id] = std::make_shared<PC>(); }
      else
      {
        // recycled buffer: stale points and garbage header left by the caller
        auto& c = *it->second;
        PT j; j.x = 12345.f; j.y = -12345.f; j.z = 777.f; j.intensity = 201; j.ring = 9999; j.timestamp = 42.0;
        c.points.clear(); c.points.push_back(j); c.points.push_back(j); c.points.push_back(j);
        c.seq = 4242; c.height = 77; c.width = 99; c.is_dense = !c.is_dense; c.timestamp = -1; c.frame_id = "stale";
      }
      fprintf(OUT, "get %d %d\n", idx, id);
      return bufs[id];
    }
    int id = fresh++;
    bufs[id] = std::make_shared<PC>();
    fprintf(OUT, "get %d %d\n", idx, id);
    return bufs[id];
  }
  std::atomic<int> put_sleep_ms{0};      // PS: a slow consumer - the put callback takes this long
  void put(std::shared_ptr<PC> c)
  {
    late("put");
    if (put_sleep_ms > 0)
    {
      // the cloud belongs to the caller from the moment it is handed over: it must not change while the callback runs
      size_t n0 = c->points.size(); uint32_t h0 = c->height, w0 = c->width;
      std::this_thread::sleep_for(std::chrono::milliseconds(put_sleep_ms.load()));
      if (c->points.size() != n0 || c->height != h0 || c->width != w0)
      {
        std::lock_guard<std::recursive_mutex> lg(g_out_mtx);
        fprintf(OUT, "cloudmod %d %u %zu %zu\n", idx, c->seq, n0, c->points.size());
      }
    }
    std::lock_guard<std::recursive_mutex> lg(g_out_mtx);
    fprintf(OUT, "cloud %d %u %d %u %u %d %.9f %zu%s\n", idx, c->seq, id_of(c), c->height, c->width, (int)c->is_dense, c->timestamp, c->points.size(),
            c->frame_id == param.frame_id ? "" : " BADFRAMEID");
    for (auto& p : c->points) print_point(p);
  }
  void pkt(const Packet& p)
  {
    late("pkt"); npkt++;
    if (qmode)
    {
      // tagged packet of a queue run: which packet is it, and are its bytes the ones that were fed?
      uint32_t tag = p.buf_.size() >= 6 ? ((uint32_t)p.buf_[2] << 24 | (uint32_t)p.buf_[3] << 16 | (uint32_t)p.buf_[4] << 8 | p.buf_[5]) : 0xffffffffu;
      bool ok = p.buf_ == q_packet(tag);
      q_record(t_role, 'D', '-', tag, ok ? 1 : 0);
      qdecoded++;
      if (slow_us) std::this_thread::sleep_for(std::chrono::microseconds(slow_us));
      return;
    }
    std::lock_guard<std::recursive_mutex> lg(g_out_mtx);
    fprintf(OUT, "pkt %d %u %d %d %.9f %zu ", idx, p.seq, (int)p.is_difop, (int)p.is_frame_begin, p.timestamp, p.buf_.size());
    hexout(p.buf_.data(), p.buf_.size());
    fputs(p.frame_id == param.frame_id ? "\n" : " BADFRAMEID\n", OUT);
  }
  void err(const Error& e)
  {
    late("err");
    int c = (int)e.error_code;
    bool hold = false;
    {
      std::lock_guard<std::recursive_mutex> lg(g_out_mtx);
      if (c == ERRCODE_PCAPEXIT || c == ERRCODE_PCAPREPEAT || c == ERRCODE_MSOPTIMEOUT || c == ERRCODE_PCAPWRONGPATH || c == ERRCODE_STARTBEFOREINIT)
      {
        fprintf(OUT, "ierr %d %d\n", idx, c);
        if (c == ERRCODE_PCAPEXIT) g_pcap_exit++;
        if (c == ERRCODE_PCAPREPEAT && ++g_pcap_repeat >= 2 && !lmode) hold = true;
      }
      else fprintf(OUT, "err %d %d\n", idx, c);
    }
    // after the second replay announcement: keep the reading thread here until stop() asks it to exit,
    // so that exactly two rounds are read (the callback runs in the reading thread)
    if (hold)
      while (!drv->driver_ptr_->input_ptr_->to_exit_recv_) std::this_thread::sleep_for(std::chrono::milliseconds(1));
  }
};

static float float_for_cdeg_u16(long cdeg)
{
  float f = (float)cdeg / 100.0f;
  for (int i = 0; i < 8 && (long)(uint16_t)(f * 100) != cdeg; i++) f = std::nextafter(f, 1e9f);
  return f;
}
static float float_for_cdeg_i32(long cdeg)
{
  float f = (float)cdeg / 100.0f;
  for (int i = 0; i < 8 && (long)(int32_t)(f * 100) != cdeg; i++) f = std::nextafter(f, cdeg >= 0 ? 1e9f : -1e9f);
  return f;
}

static void pump(Inst& in)
{
  auto impl = in.drv->driver_ptr_;
  while (true)
  {
    std::shared_ptr<Buffer> b = impl->pkt_queue_.pop();
    if (!b) break;
    impl->internalProcessPacket(b);
  }
}

static int run_scenario(std::vector<std::string>& lines)
{
  std::map<int, std::unique_ptr<Inst>> insts;
  g_fake_wall = true; g_wall = 0; g_fake_clock = true; g_host_us = 0;
  for (size_t li = 0; li < lines.size(); li++)
  {
    auto& line = lines[li];
    auto t = split_ws(line);
    if (t.empty()) continue;
    const std::string& c = t[0];
    auto I = [&](size_t i) { return atol(t[i].c_str()); };
    { std::lock_guard<std::mutex> lg(g_wd_mtx); g_wd_cmd = line.substr(0, 40); }
    if (c == "B") continue;
    else if (c == "TZD") g_tz_rule = (t.size() > 1 && t[1] != "-") ? t[1] : "";      // TZD <posix rule> <n> <a1 b1 ...>: see the model driver
    else if (c == "WD")
    {
      // WD secs : from here on, a call that has not returned after secs seconds is a hang (deadlock / a stop() that never returns)
      int secs = (int)I(1);
      std::thread([secs]() {
        std::this_thread::sleep_for(std::chrono::seconds(secs));
        std::string cmd; { std::lock_guard<std::mutex> lg(g_wd_mtx); cmd = g_wd_cmd; }
        { std::lock_guard<std::recursive_mutex> lg(g_out_mtx); fprintf(OUT, "hang %s\n", cmd.c_str()); fflush(OUT); }
        _exit(70);
      }).detach();
    }
    else if (c == "SL") std::this_thread::sleep_for(std::chrono::milliseconds(I(1)));
    else if (c == "PS") { auto it = insts.find((int)I(1)); if (it != insts.end()) it->second->put_sleep_ms = (int)I(2); }
    else if (c == "LB" || c == "LY")
    {
      auto it = insts.find((int)I(1));
      if (it == insts.end() || !it->second->drv) continue;
      Inst* in = it->second.get();
      in->stop_bg();
      if (c == "LB")
      {
        // LB i period_us hex : a thread of the caller feeds this packet every period_us until LY i
        long period = I(2); std::vector<uint8_t> b = t.size() > 3 ? unhex(t[3]) : std::vector<uint8_t>();
        in->bg_stop = false;
        in->bg = std::thread([in, period, b]() {
          while (!in->bg_stop) { Packet pk; pk.buf_ = b; in->drv->decodePacket(pk); std::this_thread::sleep_for(std::chrono::microseconds(period)); }
        });
      }
    }
    else if (c == "Z") { insts.erase((int)I(1)); }
    else if (c.size() == 2 && c[0] == 'L')
    {
      // lifecycle calls on a driver with real threads (C11); every call is followed by the flags and thread states it left behind
      auto it = insts.find((int)I(1));
      if (it == insts.end()) { LOCKED_PRINT("nodrv %d\n", (int)I(1)); continue; }
      Inst* in = it->second.get();
      in->lmode = true;
      if (c == "LI" || c == "LS" || c == "LC") in->stopped = false;      // these calls may run callbacks themselves
      g_fake_clock = false; g_fake_wall = false; g_fd_track = true;
      auto lstate = [&]() {
        if (!in->drv) { LOCKED_PRINT("lstate %d gone\n", in->idx); return; }
        auto impl = in->drv->driver_ptr_;
        bool rj = impl->input_ptr_ ? impl->input_ptr_->recv_thread_.joinable() : false;
        LOCKED_PRINT("lstate %d %d %d %d %d bad=%d\n", in->idx, (int)impl->init_flag_, (int)impl->start_flag_, (int)impl->handle_thread_.joinable(), (int)rj, (int)g_badclose);
      };
      if (c == "LC")
      {
        // LC i ok : create the object; ok = 0 makes the coming init() fail in the input layer (missing file / port in use)
        RSDriverParam p = in->param;
        bool ok = t.size() > 2 ? I(2) != 0 : true;
        if (in->in_mode == 1 || in->in_mode == 3)
        {
          char tmpl[] = "/tmp/rsh_lpcap_XXXXXX";
          int fd = mkstemp(tmpl); in->lpath = tmpl;
          FILE* pf = fdopen(fd, "wb");
          uint32_t gh[6] = {0xa1b2c3d4, 0x00040002, 0, 0, 262144, 1};
          fwrite(gh, 4, 6, pf);
          uint32_t sec = 1700000000;
          for (auto& fr : in->frames)
          {
            uint32_t rh[4] = {sec++, 0, (uint32_t)fr.second.size(), fr.first};
            fwrite(rh, 4, 4, pf);
            if (!fr.second.empty()) fwrite(fr.second.data(), 1, fr.second.size(), pf);
          }
          fclose(pf);
          if (in->cut_file && !in->frames.empty()) { struct stat sb; if (stat(in->lpath.c_str(), &sb) == 0) { if (truncate(in->lpath.c_str(), sb.st_size - (off_t)(in->frames.back().second.size() / 2 + 1)) != 0) perror("truncate"); } }
          p.input_type = InputType::PCAP_FILE; p.input_param.pcap_path = ok ? in->lpath : in->lpath + ".missing";
          p.input_param.pcap_repeat = in->repeat; p.input_param.pcap_rate = 1000000.0f;
        }
        else if (in->in_mode == 2)
        {
          p.input_type = InputType::ONLINE_LIDAR;
          if (!ok) p.input_param.host_address = "203.0.113.77";     // not an address of this host: bind() fails
        }
        p.input_param.msop_port = (uint16_t)in->msop_port; p.input_param.difop_port = (uint16_t)in->difop_port;
        in->lparam = p;
        in->drv.reset(new LidarDriver<PC>());
        in->drv->regPointCloudCallback([in]() { return in->get(); }, [in](std::shared_ptr<PC> c) { in->put(c); });
        in->drv->regExceptionCallback([in](const Error& e) { in->err(e); });
        in->drv->regPacketCallback([in](const Packet& pk) { in->pkt(pk); });
        in->stopped = false; in->npkt = 0; g_pcap_exit = 0; g_pcap_repeat = 0;
        LOCKED_PRINT("lcreate %d\n", in->idx);
      }
      else if (!in->drv) { LOCKED_PRINT("nodrv %d\n", in->idx); continue; }
      else if (c == "LI") { bool ok = init_from_temporary(*in->drv, in->lparam); LOCKED_PRINT("linit %d %d\n", in->idx, (int)ok); }
      else if (c == "LS") { bool ok = in->drv->start(); LOCKED_PRINT("lstart %d %d\n", in->idx, (int)ok); }
      else if (c == "LX")
      {
        in->drv->stop(); in->stopped = true;
        // stop() leaves no open frame behind for the next session
        auto impl = in->drv->driver_ptr_;
        size_t n = (impl->decoder_ptr_ && impl->decoder_ptr_->point_cloud_) ? impl->decoder_ptr_->point_cloud_->points.size() : 0;
        LOCKED_PRINT("lstop %d\n", in->idx); LOCKED_PRINT("lopen %d %zu\n", in->idx, n);
      }
      else if (c == "LP") { Packet pk; if (t.size() > 2) pk.buf_ = unhex(t[2]); in->drv->decodePacket(pk); }
      else if (c == "LW")
      {
        auto impl = in->drv->driver_ptr_;
        if (impl->start_flag_)
        {
          long last = -1; int stable = 0;
          for (int k = 0; k < 5000 && stable < 10; k++)
          {
            bool empty;
            { std::lock_guard<std::mutex> lg(impl->pkt_queue_.mtx_); empty = impl->pkt_queue_.queue_.empty(); }
            long d = in->npkt;
            if (empty && d == last) stable++; else stable = 0;
            last = d;
            std::this_thread::sleep_for(std::chrono::milliseconds(2));
          }
        }
        LOCKED_PRINT("lproc %d %ld\n", in->idx, (long)in->npkt);
      }
      else if (c == "LE")
      {
        // wait for the end of the capture file (no-repeat) or for the second replay (repeat)
        for (int k = 0; k < 3000; k++)
        {
          if (in->repeat ? (g_pcap_repeat >= 1) : (g_pcap_exit >= 1)) break;
          std::this_thread::sleep_for(std::chrono::milliseconds(2));
        }
        std::this_thread::sleep_for(std::chrono::milliseconds(20));
        LOCKED_PRINT("leof %d %d\n", in->idx, (int)(in->repeat ? g_pcap_repeat >= 1 : g_pcap_exit >= 1));
        g_pcap_exit = 0; g_pcap_repeat = 0;
      }
      else if (c == "LD") { in->drv.reset(); in->stopped = true; LOCKED_PRINT("ldestroy %d\n", in->idx); }
      if (c != "LP") lstate();
      g_fd_track = false;
    }
    else if (c == "Q")
    {
      // Q i nprod npkt prefill slow_us seed trace : tagged packets through the real queues with real threads
      auto it = insts.find((int)I(1));
      if (it == insts.end() || !it->second->drv) { fprintf(OUT, "nodrv %d\n", (int)I(1)); continue; }
      Inst* in = it->second.get();
      int nprod = (int)I(2), npkt = (int)I(3), prefill = (int)I(4); in->slow_us = (int)I(5);
      bool trace = I(7) != 0;
      in->qmode = true; in->qdecoded = 0;
      auto impl = in->drv->driver_ptr_;
      g_q_rec.clear(); g_q_rec.reserve(1 << 20);
      g_q_free = &impl->free_pkt_queue_; g_q_stuffed = &impl->pkt_queue_; g_q_impl = impl.get();
      g_q_perturb = I(6) != 0;
      g_fake_clock = false; g_fake_wall = false;
#ifdef RS_DRIVER_VERIF
      if (trace) verifHook() = q_hook;
#endif
      auto feed = [in, trace](int role, int count, uint32_t base) {
        t_role = role; t_rng = 0;
        for (int k = 0; k < count; k++)
        {
          Packet pk; pk.buf_ = q_packet(base + (uint32_t)k);
          q_record(role, 'f', '-', base + (uint32_t)k, 0);
          in->drv->decodePacket(pk);
        }
      };
      if (prefill > 0) feed(0, prefill, 0);
      in->drv->start();
      std::vector<std::thread> ths;
      for (int r = 0; r < nprod; r++) ths.emplace_back(feed, r, npkt, (uint32_t)(r + 1) * 1000000u);
      for (auto& th : ths) th.join();
      // wait until the pipeline has drained and the decoder is idle
      long last = -1; int stable = 0;
      for (int k = 0; k < 20000 && stable < 15; k++)
      {
        bool empty;
        { std::lock_guard<std::mutex> lg(impl->pkt_queue_.mtx_); empty = impl->pkt_queue_.queue_.empty(); }
        long d = in->qdecoded;
        if (empty && d == last) stable++; else stable = 0;
        last = d;
        std::this_thread::sleep_for(std::chrono::milliseconds(2));
      }
      in->drv->stop();
#ifdef RS_DRIVER_VERIF
      verifHook() = nullptr;
#endif
      in->qmode = false;
      g_fake_clock = true; g_fake_wall = true;
      fprintf(OUT, "qprod %d\n", nprod > 0 ? nprod : 1);
      for (auto& r : g_q_rec) fprintf(OUT, "q %d %c %c %llx %zu\n", r.thr, r.ev, r.q, (unsigned long long)r.ptr, r.a);
      fprintf(OUT, "qend %d %ld\n", in->idx, (long)in->qdecoded);
      g_q_rec.clear();
    }      // destroy the instance (driver destructor runs)
    else if (c == "PAR")
    {
      // the P lines up to ENDPAR are fed concurrently, one thread per instance (clocks stay as they are)
      std::map<int, std::vector<std::vector<uint8_t>>> per;
      for (li++; li < lines.size() && lines[li] != "ENDPAR"; li++)
      {
        auto u = split_ws(lines[li]);
        if (u.size() >= 2 && u[0] == "P") per[atoi(u[1].c_str())].push_back(u.size() > 2 ? unhex(u[2]) : std::vector<uint8_t>());
      }
      std::vector<std::thread> ths;
      for (auto& kv : per)
      {
        auto it = insts.find(kv.first);
        if (it == insts.end() || !it->second->drv) { fprintf(OUT, "nodrv %d\n", kv.first); continue; }
        Inst* in = it->second.get();
        std::vector<std::vector<uint8_t>>* pk = &kv.second;
        ths.emplace_back([in, pk]() {
          for (auto& b : *pk) { Packet q; q.buf_ = b; in->drv->decodePacket(q); pump(*in); }
        });
      }
      for (auto& th : ths) th.join();
    }
    else if (c == "D")
    {
      std::unique_ptr<Inst> in(new Inst());
      in->idx = (int)I(1);
      RSDriverParam& p = in->param;
      p.lidar_type = (LidarType)I(2);
      p.input_type = InputType::RAW_PACKET;
      p.frame_id = "fid" + t[1];
      RSDecoderParam& d = p.decoder_param;
      d.wait_for_difop = I(3) != 0; d.dense_points = I(4) != 0; d.split_frame_mode = (SplitFrameMode)I(5);
      d.split_angle = float_for_cdeg_u16(I(6)); d.num_blks_split = (uint16_t)I(7);
      uint32_t mn = (uint32_t)strtoul(t[8].c_str(), 0, 10), mx = (uint32_t)strtoul(t[9].c_str(), 0, 10);
      memcpy(&d.min_distance, &mn, 4); memcpy(&d.max_distance, &mx, 4);
      d.start_angle = float_for_cdeg_i32(I(10)); d.end_angle = float_for_cdeg_i32(I(11));
      d.use_lidar_clock = I(12) != 0; d.ts_first_point = I(13) != 0;
      in->pktcb = I(14) != 0;
      set_tz(I(15));
      p.input_param.user_layer_bytes = (uint16_t)I(16); p.input_param.tail_layer_bytes = (uint16_t)I(17);
      in->fresh = 1000 * (in->idx + 1);
      insts[in->idx] = std::move(in);
    }
    else if (c == "CF")
    {
      // CF i : decoder_param.config_from_file with an angle file that does not exist (the debugging aid, with its file missing)
      Inst& in = *insts[(int)I(1)];
      in.param.decoder_param.config_from_file = true; in.param.decoder_param.angle_path = "/nonexistent/rs_verif_angles.csv";
    }
    else if (c == "TF")
    {
      // transform parameters (binary32 bit patterns): x y z roll pitch yaw; acts only in an ENABLE_TRANSFORM build
      Inst& in = *insts[(int)I(1)];
      float f[6];
      for (int k = 0; k < 6; k++) { uint32_t b = (uint32_t)strtoul(t[2 + k].c_str(), 0, 10); memcpy(&f[k], &b, 4); }
      RSTransformParam& tp = in.param.decoder_param.transform_param;
      tp.x = f[0]; tp.y = f[1]; tp.z = f[2]; tp.roll = f[3]; tp.pitch = f[4]; tp.yaw = f[5];
    }
    else if (c == "A") { Inst& in = *insts[(int)I(1)]; in.answers.assign(t.begin() + 2, t.end()); }
    else if (c == "I")
    {
      Inst* in = insts[(int)I(1)].get();
      in->drv.reset(new LidarDriver<PC>());
      in->drv->regPointCloudCallback([in]() { return in->get(); }, [in](std::shared_ptr<PC> c) { in->put(c); });
      in->drv->regExceptionCallback([in](const Error& e) { in->err(e); });
      if (in->pktcb) in->drv->regPacketCallback([in](const Packet& p) { in->pkt(p); });
      bool ok = init_from_temporary(*in->drv, in->param);
      if (!ok) fprintf(OUT, "initfail %d\n", in->idx);
    }
    else if (c == "N")
    {
      Inst& in = *insts[(int)I(1)];
      in.in_mode = (int)I(2); in.msop_port = (int)I(3); in.difop_port = (int)I(4); in.vlan = I(5) != 0; in.repeat = I(6) != 0; in.rate = t.size() > 7 ? (float)atof(t[7].c_str()) : 1000000.0f;
    }
    else if (c == "FT") { insts[(int)I(1)]->cut_file = true; }
    else if (c == "F") { Inst& in = *insts[(int)I(1)]; in.frames.push_back({(uint32_t)I(2), t.size() > 3 ? unhex(t[3]) : std::vector<uint8_t>()}); }
    else if (c == "U") { Inst& in = *insts[(int)I(1)]; in.dgrams.push_back({(int)I(2), t.size() > 3 ? unhex(t[3]) : std::vector<uint8_t>()}); }
    else if (c == "GO")
    {
      Inst* in = insts[(int)I(1)].get();
      g_fake_clock = false; g_fake_wall = false;     // real threads: real clocks (the LiDAR clock is used for time stamps)
      RSDriverParam p = in->param;
      p.input_param.msop_port = (uint16_t)in->msop_port; p.input_param.difop_port = (uint16_t)in->difop_port;
      p.input_param.use_vlan = in->vlan; p.input_param.pcap_repeat = in->repeat; p.input_param.pcap_rate = in->rate;
      std::string path;
      if (in->in_mode == 1 || in->in_mode == 3)
      {
        char tmpl[] = "/tmp/rsh_pcap_XXXXXX";
        int fd = mkstemp(tmpl); path = tmpl;
        FILE* pf = fdopen(fd, "wb");
        uint32_t gh[6] = {0xa1b2c3d4, 0x00040002, 0, 0, 262144, 1};
        fwrite(gh, 4, 6, pf);
        uint32_t sec = 1700000000;
        for (auto& fr : in->frames)
        {
          uint32_t rh[4] = {sec++, 0, (uint32_t)fr.second.size(), fr.first};
          fwrite(rh, 4, 4, pf);
          if (!fr.second.empty()) fwrite(fr.second.data(), 1, fr.second.size(), pf);
        }
        fclose(pf);
        // FT: a capture whose writer was killed: the last record's header is there, its data is not complete
        if (in->cut_file && !in->frames.empty()) { struct stat sb; if (stat(path.c_str(), &sb) == 0) { if (truncate(path.c_str(), sb.st_size - (off_t)(in->frames.back().second.size() / 2 + 1)) != 0) perror("truncate"); } }
        p.input_type = InputType::PCAP_FILE; p.input_param.pcap_path = path;
      }
      else p.input_type = InputType::ONLINE_LIDAR;
      in->drv.reset(new LidarDriver<PC>());
      in->drv->regPointCloudCallback([in]() { return in->get(); }, [in](std::shared_ptr<PC> c) { in->put(c); });
      in->drv->regExceptionCallback([in](const Error& e) { in->err(e); });
      if (in->pktcb) in->drv->regPacketCallback([in](const Packet& pk) { in->pkt(pk); });
      g_pcap_exit = 0; g_pcap_repeat = 0;
      bool ok = init_from_temporary(*in->drv, p);
      if (!ok) { fprintf(OUT, "initfail %d\n", in->idx); if (!path.empty()) unlink(path.c_str()); continue; }
      std::function<bool()> quiet_now;      // set below, once the driver runs
      auto send_all = [&](bool paced) {
        int s = socket(AF_INET, SOCK_DGRAM, 0);
        int prev_port = -1;
        for (auto& d : in->dgrams)
        {
          // the order of datagrams sent to different sockets is only defined if the earlier one has been consumed
          if (paced && prev_port != -1 && prev_port != d.first && quiet_now)
          {
            std::this_thread::sleep_for(std::chrono::milliseconds(5));
            for (int k = 0; k < 1000 && !quiet_now(); k++) std::this_thread::sleep_for(std::chrono::milliseconds(1));
          }
          prev_port = d.first;
          struct sockaddr_in a; memset(&a, 0, sizeof a); a.sin_family = AF_INET; a.sin_port = htons((uint16_t)d.first); a.sin_addr.s_addr = htonl(INADDR_LOOPBACK);
          static const uint8_t none = 0;
          sendto(s, d.second.empty() ? &none : d.second.data(), d.second.size(), 0, (struct sockaddr*)&a, sizeof a);
          if (paced) std::this_thread::sleep_for(std::chrono::microseconds(400));
        }
        close(s);
      };
      // mode 4: the whole burst is queued in the socket buffer before the receiver starts
      if (in->in_mode == 4) { send_all(false); std::this_thread::sleep_for(std::chrono::milliseconds(20)); }
      in->drv->start();
      auto impl = in->drv->driver_ptr_;
      auto drained = [&]() {
        for (int k = 0; k < 8; k++)
        {
          { std::lock_guard<std::mutex> lg(impl->pkt_queue_.mtx_); if (!impl->pkt_queue_.queue_.empty()) return false; }
          std::this_thread::sleep_for(std::chrono::milliseconds(3));
        }
        return true;
      };
      quiet_now = drained;
      if (in->in_mode == 2 || in->in_mode == 4)
      {
        if (in->in_mode == 2) send_all(true);
        std::this_thread::sleep_for(std::chrono::milliseconds(40));
        for (int k = 0; k < 3000 && !drained(); k++) std::this_thread::sleep_for(std::chrono::milliseconds(2));
      }
      else
      {
        for (int k = 0; k < 3000; k++)
        {
          if (in->repeat ? (g_pcap_repeat >= 2) : (g_pcap_exit >= 1)) break;
          std::this_thread::sleep_for(std::chrono::milliseconds(2));
        }
        // the reading thread is done (or held at the second replay): let the decoding thread finish what is queued
        for (int k = 0; k < 3000 && !drained(); k++) std::this_thread::sleep_for(std::chrono::milliseconds(2));
      }
      in->drv->stop();
      if (!path.empty()) unlink(path.c_str());
      g_fake_clock = true; g_fake_wall = true;
    }
    else if (c == "W") g_wall = (time_t)atoll(t[1].c_str());
    else if (c == "H") g_host_us = strtoull(t[1].c_str(), 0, 10);
    else if (c == "P")
    {
      auto it = insts.find((int)I(1));
      if (it == insts.end() || !it->second->drv) { fprintf(OUT, "nodrv %d\n", (int)I(1)); continue; }
      Packet pk;
      if (t.size() > 2) pk.buf_ = unhex(t[2]);
      it->second->drv->decodePacket(pk);
      pump(*it->second);
    }
    else if (c == "X")
    {
      auto it = insts.find((int)I(1));
      if (it == insts.end() || !it->second->drv) { fprintf(OUT, "nodrv %d\n", (int)I(1)); continue; }
      // what stop() does to the decoder state in a started driver (threads are not used in lock-step mode)
      auto impl = it->second->drv->driver_ptr_;
      if (impl->decoder_ptr_->point_cloud_) impl->decoder_ptr_->point_cloud_->points.clear();
    }
    else if (c == "T")
    {
      auto it = insts.find((int)I(1));
      if (it == insts.end() || !it->second->drv) { fprintf(OUT, "nodrv %d\n", (int)I(1)); continue; }
      float v = 0; bool ok = it->second->drv->getTemperature(v);
      if (ok) fprintf(OUT, "temp %d 1 %.4f\n", (int)I(1), v); else fprintf(OUT, "temp %d 0 0\n", (int)I(1));
    }
    else if (c == "G")
    {
      auto it = insts.find((int)I(1));
      if (it == insts.end() || !it->second->drv) { fprintf(OUT, "nodrv %d\n", (int)I(1)); continue; }
      DeviceInfo di; bool ok = it->second->drv->getDeviceInfo(di);
      if (ok)
      {
        fprintf(OUT, "devinfo %d 1 ", (int)I(1)); hexout(di.sn, 6); fputs(" ", OUT); hexout(di.mac, 6); fputs(" ", OUT);
        hexout(di.top_ver, 5); fputs(" ", OUT); hexout(di.bottom_ver, 5); fputs("\n", OUT);
      }
      else fprintf(OUT, "devinfo %d 0\n", (int)I(1));
      DeviceStatus ds; ok = it->second->drv->getDeviceStatus(ds);
      if (ok) fprintf(OUT, "devstatus %d 1 %d\n", (int)I(1), (int)ds.voltage); else fprintf(OUT, "devstatus %d 0\n", (int)I(1));
    }
    else if (c == "R")
    {
      auto it = insts.find((int)I(1));
      if (it == insts.end() || !it->second->drv) { fprintf(OUT, "nodrv %d\n", (int)I(1)); continue; }
      auto pc = it->second->drv->driver_ptr_->decoder_ptr_->point_cloud_;
      fprintf(OUT, "open %d %d %zu\n", (int)I(1), it->second->id_of(pc), pc->points.size());
      for (auto& p : pc->points) print_point(p);
    }
    else if (c == "K") kernel(t);
    else fprintf(OUT, "?? %s\n", line.c_str());
  }
  fflush(OUT);
  return 0;
}

int main(int argc, char** argv)
{
  if (argc < 3) { fprintf(stderr, "usage: rsh <scenarios.in> <out>\n"); return 2; }
  std::ifstream in(argv[1]);
  OUT = fopen(argv[2], "w");
  if (!in || !OUT) { fprintf(stderr, "cannot open files\n"); return 2; }
  std::string line;
  std::vector<std::string> cur; bool in_scn = false; std::string name;
  while (std::getline(in, line))
  {
    if (line.empty()) continue;
    if (line[0] == 'S' && line.size() > 1 && line[1] == ' ')
    {
      in_scn = true; cur.clear(); name = line; g_tz_rule.clear();
      fprintf(OUT, "%s\n", line.c_str());
      continue;
    }
    if (line == "E" && in_scn)
    {
      fflush(OUT);
      pid_t pid = fork();
      if (pid == 0)
      {
        run_scenario(cur);
        fflush(OUT);
        _exit(0);
      }
      int st = 0; waitpid(pid, &st, 0);
      if (!(WIFEXITED(st) && WEXITSTATUS(st) == 0))
      {
        fseek(OUT, 0, SEEK_END);
        fprintf(OUT, "\ncrash %s %d\n", WIFSIGNALED(st) ? "signal" : "exit", WIFSIGNALED(st) ? WTERMSIG(st) : WEXITSTATUS(st));
        fprintf(stderr, "### crash in scenario: %s\n", name.c_str());
      }
      else fseek(OUT, 0, SEEK_END);
      fprintf(OUT, "E\n");
      in_scn = false;
      continue;
    }
    if (in_scn) cur.push_back(line);
    else
    {
      auto t = split_ws(line);
      if (!t.empty() && t[0] == "K") kernel(t);
      else if (!t.empty() && t[0] == "TZD") g_tz_rule = (t.size() > 1 && t[1] != "-") ? t[1] : "";
    }
  }
  fclose(OUT);
  return 0;
}
