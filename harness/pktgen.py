"""pktgen.py - packet builders driven by the regenerated layouts (.cache/probe.json), so that the
generated packets follow layout changes in /repo."""
import json, struct, random

F32 = lambda f: struct.unpack('<I', struct.pack('<f', f))[0]

class Lidar:
    def __init__(self, name, T):
        self.name = name
        self.T = T
        self.code = T['lidar_type']
        self.mech = T['family'] == 'mech'
        self.msop_len = T['MSOP_LEN']
        self.difop_len = T['DIFOP_LEN']
        self.nblk = T['BLOCKS_PER_PKT']
        self.nchan = T['CHANNELS_PER_BLOCK']
        self.laser = T['LASER_NUM']
        self.msop_id = bytes(T['MSOP_ID'][:T['MSOP_ID_LEN']])
        self.difop_id = bytes(T['DIFOP_ID'][:T['DIFOP_ID_LEN']])
        self.blkid = bytes(T['BLOCK_ID'][:T.get('sizeof_blkid', 0)])
        self.jumbo = 'n_sub' in T
        self.echo_dual_modes = [b for b in range(256) if T.get('echo_dual', [0] * 256)[b]] if self.mech else [0]
        self.echo_single_modes = [b for b in range(256) if not T.get('echo_dual', [0] * 256)[b]] if self.mech else [4, 5, 6]

    # ---- timestamps
    def put_ts(self, buf, off, kind, us):
        if kind == 'utc':
            sec, sub = us // 1000000, us % 1000000
            buf[off:off + 6] = sec.to_bytes(6, 'big')
            buf[off + 6:off + 10] = sub.to_bytes(4, 'big')
        else:
            # ymd: us is a tuple (yy, mo, dd, hh, mi, ss, ms, us)
            yy, mo, dd, hh, mi, ss, ms, u = us
            buf[off:off + 6] = bytes([yy, mo, dd, hh, mi, ss])
            buf[off + 6:off + 8] = ms.to_bytes(2, 'big')
            buf[off + 8:off + 10] = u.to_bytes(2, 'big')

    def ts_kind(self, bpv4=False):
        k = self.T.get('ts_kind', 'utc')
        if k == 'ymd_or_utc_bpv4':
            return 'utc' if bpv4 else 'ymd'
        return k

    # ---- mechanical MSOP: blocks = list of (azimuth, [(dist, inten)] * nchan); bad_blk = index with a bad id
    def msop(self, blocks, ts=None, temp=(0, 0), bad_blk=None, model=None, bpv4=False, rng=None):
        T = self.T
        buf = bytearray(self.msop_len)
        if rng is not None:
            for i in range(len(buf)):
                buf[i] = rng.randrange(256)
        buf[0:len(self.msop_id)] = self.msop_id
        if self.mech:
            if 'off_hdr_lidar_type' in T:
                buf[T['off_hdr_lidar_type']] = 3 if bpv4 else 1
                buf[T['off_hdr_lidar_model']] = 4 if bpv4 else 0
            elif 'off_hdr_lidar_model' in T:
                buf[T['off_hdr_lidar_model']] = 0 if model is None else model
            kind = self.ts_kind(bpv4)
            self.put_ts(buf, T['off_ts'], kind, ts if ts is not None else (1700000000000000 if kind == 'utc' else (23, 11, 14, 22, 13, 20, 0, 0)))
            buf[T['off_temp']], buf[T['off_temp'] + 1] = temp
            for bi, (az, chans) in enumerate(blocks):
                bo = T['off_blocks'] + bi * T['sizeof_block']
                idb = bytearray(self.blkid)
                if bad_blk is not None and bi == bad_blk:
                    idb[0] ^= 0x5A
                buf[bo:bo + len(idb)] = idb
                if len(idb) == 1 and rng is None:
                    buf[bo + 1] = 1 + bi % 2       # Ruby-family blocks: one identifier byte followed by the return number (ret_id)
                buf[bo + T['off_blk_az']:bo + T['off_blk_az'] + 2] = int(az).to_bytes(2, 'big')
                for ci, (dist, inten) in enumerate(chans):
                    co = bo + T['off_blk_chan'] + ci * T['sizeof_chan']
                    buf[co + T['off_chan_dist']:co + T['off_chan_dist'] + 2] = int(dist).to_bytes(2, 'big')
                    buf[co + T['off_chan_int']] = inten
        return bytes(buf)

    # ---- MEMS MSOP (one sub packet image); blocks = list of (toff, [chan dicts])
    def mems_sub(self, seq, blocks, ts_us=1700000000000000, temp=100, return_mode=4, rng=None, sub_len=None):
        T = self.T
        n = sub_len if sub_len else self.msop_len
        buf = bytearray(n)
        if rng is not None:
            for i in range(len(buf)):
                buf[i] = rng.randrange(256)
        buf[0:len(self.msop_id)] = self.msop_id
        buf[T['off_seq']:T['off_seq'] + 2] = int(seq).to_bytes(2, 'big')
        buf[T['off_hdr_return_mode']] = return_mode
        self.put_ts(buf, T['off_ts'], 'utc', ts_us)
        buf[T['off_temp']] = temp
        for bi, (toff, chans) in enumerate(blocks):
            bo = T['off_blocks'] + bi * T['sizeof_block']
            if T['sizeof_toff'] == 2:
                buf[bo + T['off_blk_toff']:bo + T['off_blk_toff'] + 2] = int(toff).to_bytes(2, 'big')
            else:
                buf[bo + T['off_blk_toff']] = toff & 0xFF
            for ci, ch in enumerate(chans):
                co = bo + T['off_blk_chan'] + ci * T['sizeof_chan']
                buf[co + T['off_chan_dist']:co + T['off_chan_dist'] + 2] = int(ch['dist']).to_bytes(2, 'big')
                buf[co + T['off_chan_int']] = ch.get('int', 0)
                if T['proj'] == 'pitchyaw':
                    buf[co + T['off_chan_pitch']:co + T['off_chan_pitch'] + 2] = int(ch.get('pitch', 32768)).to_bytes(2, 'big')
                    buf[co + T['off_chan_yaw']:co + T['off_chan_yaw'] + 2] = int(ch.get('yaw', 32768)).to_bytes(2, 'big')
                else:
                    for k in 'xyz':
                        v = int(ch.get(k, 0)) & 0xFFFF
                        buf[co + T['off_chan_' + k]:co + T['off_chan_' + k] + 2] = v.to_bytes(2, 'big')
                    if T['proj'] == 'vecmx':
                        buf[co + T['off_chan_dist2']:co + T['off_chan_dist2'] + 2] = int(ch.get('dist2', 0)).to_bytes(2, 'big')
                        buf[co + T['off_chan_int2']] = ch.get('int2', 0)
        return bytes(buf)

    def mems_msop(self, seq, blocks, **kw):
        if not self.jumbo:
            return self.mems_sub(seq, blocks, **kw)
        raise ValueError('use jumbo_msop')

    def jumbo_msop(self, subs):
        """subs: list of 63 sub packet images (or None for a sub packet with a wrong id)"""
        T = self.T
        buf = bytearray(self.msop_len)
        for i, s in enumerate(subs):
            if s is not None:
                buf[i * T['sizeof_sub']:(i + 1) * T['sizeof_sub']] = s
        # first two bytes decide the dispatch
        buf[0:2] = b'\x55\xaa'
        return bytes(buf)

    # ---- DIFOP
    def difop(self, rpm=600, fov=(0, 36000), dual=False, vert=None, horiz=None, mode=None, reversal=0, rng=None, raw_cali=None, sn=None):
        T = self.T
        buf = bytearray(self.difop_len)
        if rng is not None:
            for i in range(len(buf)):
                buf[i] = rng.randrange(256)
        buf[0:len(self.difop_id)] = self.difop_id
        if not self.mech:
            if 'off_difop_return_mode' in T:
                buf[T['off_difop_return_mode']] = (0 if dual else 4) if mode is None else mode
            if sn is not None and 'off_difop_sn' in T:
                buf[T['off_difop_sn']:T['off_difop_sn'] + 6] = bytes(sn)
            return bytes(buf)
        buf[T['off_difop_rpm']:T['off_difop_rpm'] + 2] = int(rpm).to_bytes(2, 'big')
        buf[T['off_difop_fov_start']:T['off_difop_fov_start'] + 2] = int(fov[0]).to_bytes(2, 'big')
        buf[T['off_difop_fov_end']:T['off_difop_fov_end'] + 2] = int(fov[1]).to_bytes(2, 'big')
        if mode is None:
            mode = (self.echo_dual_modes if dual else self.echo_single_modes)[0]
        buf[T['off_difop_return_mode']] = mode
        if 'off_difop_reversal' in T:
            buf[T['off_difop_reversal']] = reversal
        if sn is not None:
            buf[T['off_difop_sn']:T['off_difop_sn'] + 6] = bytes(sn)
        n = self.laser
        if vert is None:
            vert = [int(-1500 + 3000 * i / max(1, n - 1)) for i in range(n)]
        if horiz is None:
            horiz = [0] * n
        cali = T['cali']
        if cali == 'rs16':
            # 3-byte magnitude in 0.0001 deg; sign by index (first 8 negative)
            off = T['off_difop_pitch_cali']
            for i in range(16):
                v = raw_cali[i] if raw_cali is not None else abs(vert[i]) * 100
                buf[off + 3 * i:off + 3 * i + 3] = int(v).to_bytes(3, 'big')
        else:
            scale = 10 if cali == 'rs32' else 1
            for arr, key in ((vert, 'off_difop_vert'), (horiz, 'off_difop_horiz')):
                off = T[key]
                for i in range(n):
                    v = arr[i]
                    if isinstance(v, tuple):      # explicit (sign byte, magnitude)
                        sign, mag = v
                    else:
                        sign, mag = (1 if v < 0 else 0), abs(v) * scale
                    buf[off + 3 * i] = sign
                    buf[off + 3 * i + 1:off + 3 * i + 3] = min(int(mag), 65535).to_bytes(2, 'big')
        return bytes(buf)


def load(probe_json):
    P = json.load(open(probe_json))
    return {n: Lidar(n, T) for n, T in P['types'].items() if n != '_'}, P['globals']


class Cfg:
    """driver configuration line `D`"""
    def __init__(self, **kw):
        self.wait = 1; self.dense = 0; self.mode = 1; self.angle = 0; self.nblk = 1
        self.min = 0.0; self.max = 0.0; self.start = 0; self.end = 36000
        self.lclock = 1; self.tsfirst = 0; self.pktcb = 0; self.tz = 0; self.user = 0; self.tail = 0
        self.tzd = None          # name of a zone with daylight saving (tzrules.ZONES): the TZD line goes in front of the D line, tz is its standard offset
        self.from_file = 0  # config_from_file with a missing angle file (CF directive)
        self.tf = None      # ENABLE_TRANSFORM builds: (x, y, z, roll, pitch, yaw) as binary32 values
        self.__dict__.update(kw)

    def line(self, i, lidar):
        d = (f'D {i} {lidar.code} {self.wait} {self.dense} {self.mode} {self.angle} {self.nblk} {F32(self.min)} {F32(self.max)} '
             f'{self.start} {self.end} {self.lclock} {self.tsfirst} {self.pktcb} {self.tz} {self.user} {self.tail}')
        if self.from_file:
            d += f'\nCF {i}'
        if self.tf is not None:
            d += f'\nTF {i} ' + ' '.join(str(F32(v)) for v in self.tf)
        return d


# ------------------------------------------------------------------------------ Ethernet / IP / UDP frames
def udp_frame(payload, dport, sport=6699, vlan=False, ihl=5, ip_id=0, frag_off=0, more=False, proto=17, ethertype=0x0800,
              ipv6=False, vlan_type=0x8100, raw_ip_payload=None, tot_len=None, ver=4, df=False):
    """an Ethernet frame; raw_ip_payload (bytes after the IP header) overrides the UDP header + payload"""
    eth = bytes([0, 1, 2, 3, 4, 5, 6, 7, 8, 9, 10, 11])
    if vlan:
        eth += vlan_type.to_bytes(2, 'big') + (100).to_bytes(2, 'big')
    if ipv6:
        eth += (0x86dd).to_bytes(2, 'big')
        udp = sport.to_bytes(2, 'big') + dport.to_bytes(2, 'big') + (8 + len(payload)).to_bytes(2, 'big') + b'\x00\x00'
        ip6 = bytes([0x60, 0, 0, 0]) + (len(udp) + len(payload)).to_bytes(2, 'big') + bytes([proto, 64]) + bytes(32)
        return eth + ip6 + udp + payload
    eth += ethertype.to_bytes(2, 'big')
    if raw_ip_payload is None:
        udp = sport.to_bytes(2, 'big') + dport.to_bytes(2, 'big') + (8 + len(payload)).to_bytes(2, 'big') + b'\x00\x00'
        body = udp + payload
    else:
        body = raw_ip_payload
    hl = ihl * 4
    tl = hl + len(body) if tot_len is None else tot_len
    fo = ((1 if df else 0) << 14) | ((1 if more else 0) << 13) | ((frag_off // 8) & 0x1fff)
    ip = bytes([(ver << 4) | ihl, 0]) + (tl & 0xffff).to_bytes(2, 'big') + ip_id.to_bytes(2, 'big') + fo.to_bytes(2, 'big') + bytes([64, proto, 0, 0]) + bytes([192, 168, 1, 200, 192, 168, 1, 102])
    ip += bytes(max(0, hl - 20))
    return eth + ip[:max(hl, 20)] + body


def fragments(payload, dport, ip_id, sizes, sport=6699):
    """split a UDP datagram (header + payload) into IP fragments of the given sizes (multiples of 8 except the last)"""
    dgram = sport.to_bytes(2, 'big') + dport.to_bytes(2, 'big') + ((8 + len(payload)) & 0xffff).to_bytes(2, 'big') + b'\x00\x00' + payload
    out, off = [], 0
    i = 0
    while off < len(dgram):
        n = sizes[min(i, len(sizes) - 1)]
        chunk = dgram[off:off + n]
        more = off + n < len(dgram)
        out.append(udp_frame(b'', dport, ip_id=ip_id, frag_off=off, more=more, raw_ip_payload=chunk))
        off += n; i += 1
    return out
