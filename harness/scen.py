"""scen.py - structured scenario generators shared by the property checks.  Every random choice comes
from the rng passed in (seeded from VERIF_SEED)."""
import pktgen

MECH = ['RS16', 'RS32', 'RSBP', 'RSHELIOS', 'RSHELIOS_16P', 'RS128', 'RS80', 'RS48', 'RSP128', 'RSP80', 'RSP48']
MEMS = ['RSM1', 'RSM2', 'RSM3', 'RSE1', 'RSMX', 'RSM1_JUMBO']
ALL = MECH + MEMS

DIST_EDGE = [0, 1, 19, 20, 21, 39, 40, 41, 79, 80, 81, 159, 160, 161, 2000, 29999, 30000, 30001, 36000, 40000, 45999, 46000, 46001, 50000, 59999, 60000, 60001, 65534, 65535]


def rdist(rng):
    r = rng.random()
    if r < 0.5:
        return rng.choice(DIST_EDGE)
    if r < 0.8:
        return rng.randrange(0, 4000)
    return rng.randrange(65536)


def ymd(rng):
    return (rng.choice([0, 23, 24, 38, 99, 100, 199, 255]), rng.randrange(1, 13), rng.randrange(1, 29), rng.randrange(24), rng.randrange(60), rng.randrange(60),
            rng.choice([0, 1, 500, 999]), rng.choice([0, 1, 500, 999]))


def utc(rng):
    return rng.choice([0, 1, 946684800, 1700000000, 2147483647, 2147483648, 4294967295, 4294967296, 9000000000]) * 1000000 + rng.choice([0, 1, 499999, 999999])


class MechStream:
    """azimuth stream state for one mechanical lidar"""

    def __init__(self, rng, l, start_az=None, step=None, dual=False):
        self.rng, self.l = rng, l
        self.az = rng.randrange(36000) if start_az is None else start_az
        self.step = step if step is not None else rng.choice([10, 18, 20, 22, 40, 80])
        self.dual = dual
        self.k = 0

    def blocks(self, gap_prob=0.05, jitter=True, dist=None, big_steps=False, zero_gap_blk=None, tail_invalid_p=0.25):
        rng, l = self.rng, self.l
        bl = []
        for b in range(l.nblk):
            chans = [((dist(rng) if dist else rdist(rng)), rng.randrange(256)) for _ in range(l.nchan)]
            if dist is None and rng.random() < tail_invalid_p:
                # trailing slots of the block out of range (raw 0): the block's last decoded slots yield no valid point
                k = rng.randrange(1, max(2, l.nchan // 2 + 1))
                chans[-k:] = [(0, c[1]) for c in chans[-k:]]
            bl.append((self.az, chans))
            advance = True
            if self.dual and not l.T.get('is16') and (self.k % 2 == 0):
                advance = False          # dual-return pairs share an azimuth
            self.k += 1
            if advance:
                st = self.step + (rng.choice([-2, -1, 0, 0, 0, 1, 2]) if jitter else 0)
                if rng.random() < gap_prob:
                    st = rng.choice([99, 100, 101, 102, 1500, 9000])
                if big_steps and rng.random() < 0.1:
                    st = rng.choice([0, 17999, 18000, 35999])
                if zero_gap_blk is not None and b >= zero_gap_blk and self.az > 18000:
                    # a FOV-gap sized jump (> 1 deg) that crosses 0 deg
                    st = (36000 - self.az) + rng.choice([1, 150, 400, 4000])
                    zero_gap_blk = None
                self.az = (self.az + max(0, st)) % 36000
        return bl

    def msop(self, ts=None, bad_blk=None, model=None, bpv4=False, temp=None, noise=False, **kw):
        rng, l = self.rng, self.l
        kind = l.ts_kind(bpv4)
        if ts is None:
            ts = utc(rng) if kind == 'utc' else ymd(rng)
            if kind != 'utc' and getattr(self, 'safe_hours', False) and ts[3] in (1, 2, 3):
                ts = ts[:3] + (rng.choice([0, 4, 12, 23]),) + ts[4:]      # zones with daylight saving: not the hours skipped / repeated at a transition
        if temp is None:
            temp = (rng.randrange(256), rng.randrange(256))
        return l.msop(self.blocks(**kw), ts=ts, temp=temp, bad_blk=bad_blk, model=model, bpv4=bpv4, rng=rng if noise else None)


def mems_blocks(rng, l, dual_hdr=False):
    T = l.T
    bl = []
    # block time offsets over the whole range of the field (16-bit offsets: also the upper half, 32768 us and more)
    toff = rng.choice([0, 0, 250, 30000, 32760, 40000, 65500]) if T['sizeof_toff'] == 2 else rng.choice([0, 0, 120, 250])
    for b in range(l.nblk):
        chans = []
        for c in range(l.nchan):
            ch = {'dist': rdist(rng), 'int': rng.randrange(256)}
            if T['proj'] == 'pitchyaw':
                ch['pitch'] = rng.choice([32768, 32768 + rng.randrange(-2500, 2500), rng.randrange(23768, 65536)])
                ch['yaw'] = rng.choice([32768, 32768 + rng.randrange(-6000, 6000), rng.randrange(23768, 65536)])
            else:
                # MX decodes x as unsigned (recorded finding D17): keep x non-negative unless asked
                ch['x'] = rng.randrange(0, 32768)
                ch['y'] = rng.randrange(-32768, 32768)
                ch['z'] = rng.randrange(-32768, 32768)
                if T['proj'] == 'vecmx':
                    ch['dist2'] = rdist(rng); ch['int2'] = rng.randrange(256)
            chans.append(ch)
        bl.append((toff, chans))
        toff = min(toff + rng.randrange(0, 12), 255 if T['sizeof_toff'] == 1 else 65535)
    return bl


def mems_msop(rng, l, seq, ts_us=None, temp=None, return_mode=None, noise=False, bad_subs=()):
    if ts_us is None:
        ts_us = utc(rng)
    if temp is None:
        temp = rng.randrange(256)
    if return_mode is None:
        return_mode = rng.choice([0, 4, 5, 6])
    if not l.jumbo:
        return l.mems_sub(seq, mems_blocks(rng, l), ts_us=ts_us, temp=temp, return_mode=return_mode, rng=rng if noise else None)
    subs = []
    n = l.T['n_sub']
    for i in range(n):
        if i in bad_subs:
            subs.append(None)
        else:
            subs.append(l.mems_sub((seq + i) % 65536, mems_blocks(rng, l), ts_us=ts_us + i * 150, temp=(temp + 3 * i) % 256, return_mode=return_mode, sub_len=l.T['sizeof_sub']))
    return l.jumbo_msop(subs)


def malformed(rng, l, good_msop, good_difop):
    """a packet the driver must reject (or ignore), with its kind"""
    k = rng.choice(['msop_short', 'msop_long', 'msop_badid', 'difop_short', 'difop_long', 'difop_badid', 'foreign', 'empty', 'one', 'two_msop', 'two_difop', 'rand',
                    'msop_badid_badlen', 'difop_badid_badlen', 'msop_badid_badlen'])
    if k in ('msop_badid_badlen', 'difop_badid_badlen'):
        # BOTH a wrong identifier (beyond the two dispatch bytes) and a wrong length
        src, idl = (good_msop, len(l.msop_id)) if k.startswith('msop') else (good_difop, len(l.difop_id))
        b = bytearray(src); i = rng.randrange(2, idl); b[i] ^= 1 << rng.randrange(8)
        return k, bytes(b[:-rng.choice([1, 6, 100])]) if rng.random() < 0.6 else bytes(b) + bytes(rng.choice([1, 2, 6]))
    if k == 'msop_short':
        return k, good_msop[:-rng.choice([1, 2, 6, 100])]
    if k == 'msop_long':
        return k, good_msop + bytes(rng.choice([1, 2, 6]))
    if k == 'msop_badid':
        b = bytearray(good_msop); i = rng.randrange(2, len(l.msop_id)); b[i] ^= 1 << rng.randrange(8)
        return k, bytes(b)
    if k == 'difop_short':
        return k, good_difop[:-rng.choice([1, 2, 6, 100])]
    if k == 'difop_long':
        return k, good_difop + bytes(rng.choice([1, 2, 6]))
    if k == 'difop_badid':
        b = bytearray(good_difop); i = rng.randrange(2, len(l.difop_id)); b[i] ^= 1 << rng.randrange(8)
        return k, bytes(b)
    if k == 'foreign':
        b = bytearray(good_msop); b[0] = rng.choice([0x00, 0x54, 0xAA, 0xA5]); b[1] = rng.choice([0x00, 0xAB, 0x55, 0xFE])
        if (b[0], b[1]) in ((0x55, 0xAA), (0xA5, 0xFF)):
            b[1] = 0
        return k, bytes(b[:rng.choice([len(b), 60, 200])])
    if k == 'empty':
        return k, b''
    if k == 'one':
        return k, bytes([rng.choice([0x55, 0xA5, 0x00])])
    if k == 'two_msop':
        return k, b'\x55\xaa'
    if k == 'two_difop':
        return k, b'\xa5\xff'
    return k, bytes(rng.randrange(256) for _ in range(rng.choice([3, 8, 42, 100, 256, 1248])))


def cali_table(rng, l, kind=None):
    """(vert, horiz, raw_cali) for a DIFOP of lidar l; kind: valid | ff | range | edge | dup"""
    n = l.laser
    if kind is None:
        kind = rng.choice(['valid', 'valid', 'valid', 'ff', 'range', 'edge', 'dup'])
    vert = sorted(rng.sample(range(-2500, 1500), n)) if n <= 128 else None
    rng.shuffle(vert)
    horiz = [rng.choice([rng.randrange(-800, 800), rng.randrange(-2000, 2001), 2000, -2000]) for _ in range(n)]
    raw = None
    if kind == 'dup':
        vert = [rng.choice([-100, 0, 250]) for _ in range(n)]
    i = rng.randrange(n)
    if kind == 'ff':
        vert[i] = (0xFF, abs(vert[i]) * (10 if l.T.get('cali') == 'rs32' else 1))
    elif kind == 'range':
        which = rng.choice(['v', 'h'])
        val = rng.choice([9000, 9001, 20000, -9001, -20000])
        if which == 'v' or l.T.get('cali') == 'rs16':
            vert[i] = val
        else:
            horiz[i] = val
    elif kind == 'edge':
        vert[i] = rng.choice([-9000, 8999])
        horiz[rng.randrange(n)] = rng.choice([-9000, 8999, 2000, -2000])
    if l.T.get('cali') == 'rs16':
        # 3-byte magnitudes in 1e-4 deg; sign comes from the index (first 8 negative)
        raw = [abs(v if not isinstance(v, tuple) else v[1]) * 100 + rng.choice([0, 1, 50, 99]) for v in vert]
        if kind == 'ff':
            kind = 'range'; raw[i] = rng.choice([900000, 1000000, 6553600, 16777215])
    return kind, vert, horiz, raw


class Scn:
    def __init__(self, name):
        self.lines = [f'S {name}']
        self.wall = 10

    def add(self, s):
        self.lines.append(s)

    def drv(self, i, l, cfg, answers=None):
        if getattr(cfg, 'tzd', None):
            import tzrules
            cfg.tz = tzrules.std_offset(cfg.tzd)
            self.lines.append(tzrules.line(cfg.tzd))
        self.lines.append(cfg.line(i, l))
        if answers is not None:
            self.lines.append(f'A {i} ' + ' '.join(str(a) for a in answers))
        self.lines.append(f'I {i}')

    def pkt(self, i, data, tick=2):
        """feed a packet; advance the wall clock first so that every throttled site may report"""
        if tick:
            self.wall += tick
            self.lines.append(f'W {self.wall}')
        self.lines.append(f'P {i} {data.hex()}' if data else f'P {i}')

    def text(self, residual=(0,)):
        for i in residual:
            self.lines.append(f'R {i}')
        return '\n'.join(self.lines + ['E'])


def mixed_scenario(rng, L, tname, sname, cfg, answers=None, npk=None, malformed_p=0.25, badblk_p=0.12, difop_at=None, dual=None,
                   host=False, residual=True, temp_query=False, dev_query=False, big_steps=False, gap_p=0.05, start_az=None, step=None, seq0=None,
                   dist=None, fov=None, rpm=None, zero_gap=False, tail_invalid_p=0.25, bpv4=None, reversal=None, model_seq=None, host_base=1700000000000000, cali_kind=None):
    """one scenario: a DIFOP/MSOP stream for lidar `tname` with malformed packets interleaved"""
    l = L[tname]
    s = Scn(sname)
    s.drv(0, l, cfg, answers=answers)
    if dual is None:
        dual = rng.random() < 0.35
    if host:
        s.add('H %d' % (host_base + rng.randrange(10 ** 9)))
    hostv = host_base + 123456789
    if l.mech:
        ms = MechStream(rng, l, dual=dual, start_az=start_az, step=step)
        ms.safe_hours = bool(getattr(cfg, 'tzd', None))
        if rpm is None:
            rpm = rng.choice([300, 600, 600, 1200, 0, 59, 61, 1500])
        if fov is None:
            fov = rng.choice([(0, 36000), (0, 36000), (4500, 31500), (31500, 4500), (0, 0)])
        kd, vert, horiz, raw = cali_table(rng, l, cali_kind or ('valid' if rng.random() < 0.7 else None))
        if reversal is None:
            reversal = rng.choice([0, 0, 1, 0x80]) if tname == 'RSBP' else 0
        good_d = l.difop(dual=dual, rpm=rpm, fov=fov, vert=vert, horiz=horiz, raw_cali=raw, reversal=reversal)
        bp = (tname == 'RSBP' and rng.random() < 0.4) if bpv4 is None else bpv4
        n = npk if npk is not None else rng.choice([2, 3, 4, 6])
        if difop_at is None:
            difop_at = rng.choice([0, 0, 0, 1, 2])
        for k in range(n):
            if k == difop_at:
                s.pkt(0, good_d)
            elif rng.random() < 0.2:
                kd2, v2, h2, r2 = cali_table(rng, l)
                s.pkt(0, l.difop(dual=rng.random() < 0.5, rpm=rng.choice([300, 600, 1200]), fov=fov, vert=v2, horiz=h2, raw_cali=r2))
            model = (model_seq[k % len(model_seq)] if model_seq else rng.choice([0, 2, 3, 2, 3, 1, 4, 0x10, 0xff])) if tname == 'RSP80' else None
            zg = rng.randrange(0, max(1, l.nblk - 2)) if (zero_gap and k == n // 2) else None
            if zg is not None and ms.az < 18000:
                ms.az = 35000 + rng.randrange(0, 900)
            m = ms.msop(bpv4=bp, model=model, bad_blk=(rng.randrange(l.nblk) if rng.random() < badblk_p else None),
                        big_steps=big_steps, gap_prob=gap_p, dist=dist, zero_gap_blk=zg, tail_invalid_p=tail_invalid_p)
            if host:
                hostv += rng.randrange(1, 5000); s.add(f'H {hostv}')
            s.pkt(0, m)
            if rng.random() < malformed_p:
                kind, bad = malformed(rng, l, m, good_d)
                s.pkt(0, bad)
    else:
        seq = rng.choice([0, 1, 100, 30000, 65500]) if seq0 is None else seq0
        good_d = l.difop(dual=dual)
        n = npk if npk is not None else (rng.choice([3, 5, 8]) if not l.jumbo else rng.choice([1, 2]))
        for k in range(n):
            if k == 1 or rng.random() < 0.1:
                s.pkt(0, good_d)
            bad_subs = tuple(i for i in range(63) if rng.random() < 0.05) if l.jumbo else ()
            m = mems_msop(rng, l, seq, bad_subs=bad_subs)
            if host:
                hostv += rng.randrange(1, 5000); s.add(f'H {hostv}')
            s.pkt(0, m)
            seq = (seq + rng.choice([1, 1, 1, 1, 2, 10, 11, -3, -10, -11, -200]) * (63 if l.jumbo else 1)) % 65536
            if rng.random() < malformed_p:
                kind, bad = malformed(rng, l, m, good_d)
                s.pkt(0, bad)
    if temp_query:
        s.add('T 0')
    if dev_query:
        s.add('G 0')
    return s.text(residual=(0,) if residual else ())


def rand_cfg(rng, **over):
    kw = dict(angle=rng.choice([0, 1, 100, 9000, 18000, 35990, 35999]), pktcb=rng.randrange(2), wait=rng.randrange(2), dense=0,
              mode=rng.choice([1, 1, 1, 2, 3]), nblk=rng.choice([1, 2, 5, 12, 13, 40, 0]), lclock=1, tsfirst=rng.randrange(2), tz=rng.choice([0, 28800, -12600]))
    # a restricted field of view in a good third of the configurations (boundaries that fall inside blocks: per-channel azimuths decide)
    st_en = rng.choice([(0, 36000)] * 4 + [(9010, 27000), (27000, 9000), (100, 35900), (4500, 4499), (35990, 18005)])
    kw['start'], kw['end'] = st_en
    kw.update(over)
    return pktgen.Cfg(**kw)


def sparse_scenario(rng, L, tname, sname, dense=1, angle=0, budgets=None, answers=None, pktcb=0):
    """revolutions of a mechanical lidar that hold very few valid points - none, one, one less than the laser count, exactly the
    laser count, ... - between full ones: in dense mode a frame is delivered iff it holds at least one point, with exactly its points;
    every crossing of the split angle still begins a new cloud"""
    l = L[tname]
    s = Scn(sname)
    s.drv(0, l, pktgen.Cfg(wait=0, dense=dense, pktcb=pktcb, angle=angle, mode=1, lclock=1), answers=answers)
    ppr = 3
    step = 36000 // (l.nblk * ppr)
    ms = MechStream(rng, l, start_az=(angle + 300) % 36000, step=step, dual=False)
    if budgets is None:
        budgets = [None, 1, l.laser - 1, 0, l.laser, 2, None, l.laser + 1, 0, 0, 3, None]
    for bud in budgets:
        left = [bud]
        skip = [rng.randrange(0, l.nchan * l.nblk)]          # where in the revolution the valid points sit

        def dist(r):
            if left[0] is None:
                return 2000
            if skip[0] > 0:
                skip[0] -= 1
                return 0
            if left[0] > 0:
                left[0] -= 1
                return 2000
            return 0
        for k in range(ppr):
            s.pkt(0, ms.msop(ts=None, dist=dist, jitter=False, gap_prob=0.0, tail_invalid_p=0.0))
    return s.text()


def tf_pair_scenario(rng, L, name, t0='RS16', t1='RSHELIOS'):
    """two instances in one process on an ENABLE_TRANSFORM build: instance 0 keeps the identity transform, instance 1 is created
    later with a non-identity pose; both are fed alternately. The transform belongs to the instance."""
    s = Scn(name)
    l0, l1 = L[t0], L[t1]
    s.drv(0, l0, pktgen.Cfg(wait=0, dense=0, pktcb=0))
    m0, m1 = MechStream(rng, l0), MechStream(rng, l1)
    s.pkt(0, m0.msop())
    tf = (rng.uniform(-5, 5), rng.uniform(-5, 5), rng.uniform(-2, 2), rng.uniform(-1, 1), rng.uniform(-1, 1), rng.uniform(-3, 3))
    s.drv(1, l1, pktgen.Cfg(wait=0, dense=0, pktcb=0, tf=tf))
    for k in range(3):
        s.pkt(0, m0.msop()); s.pkt(1, m1.msop())
    return s.text(residual=(0, 1))
