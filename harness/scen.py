"""scen.py - structured scenario generators shared by the property checks.  Every random choice comes
from the rng passed in (seeded from VERIF_SEED)."""
import pktgen

MECH = ['RS16', 'RS32', 'RSBP', 'RSHELIOS', 'RSHELIOS_16P', 'RS128', 'RS80', 'RS48', 'RSP128', 'RSP80', 'RSP48']
MEMS = ['RSM1', 'RSM2', 'RSM3', 'RSE1', 'RSMX', 'RSM1_JUMBO']
ALL = MECH + MEMS

DIST_EDGE = [0, 1, 19, 20, 21, 39, 40, 41, 79, 80, 81, 159, 160, 161, 2000, 29999, 30000, 30001, 36000, 40000, 45999, 46000, 46001, 50000, 59999, 60000, 60001, 65534, 65535]


def rdist(rng):
    r = rng.random()
    if r < 0.5:
        return rng.choice(DIST_EDGE)
    if r < 0.8:
        return rng.randrange(0, 4000)
    return rng.randrange(65536)


def ymd(rng):
    return (rng.choice([0, 23, 24, 38, 99, 100, 199, 255]), rng.randrange(1, 13), rng.randrange(1, 29), rng.randrange(24), rng.randrange(60), rng.randrange(60),
            rng.choice([0, 1, 500, 999]), rng.choice([0, 1, 500, 999]))


def utc(rng):
    return rng.choice([0, 1, 946684800, 1700000000, 2147483647, 2147483648, 4294967295, 4294967296, 9000000000]) * 1000000 + rng.choice([0, 1, 499999, 999999])


class MechStream:
    """azimuth stream state for one mechanical lidar"""

    def __init__(self, rng, l, start_az=None, step=None, dual=False):
        self.rng, self.l = rng, l
        self.az = rng.randrange(36000) if start_az is None else start_az
        self.step = step if step is not None else rng.choice([10, 18, 20, 22, 40, 80])
        self.dual = dual
        self.k = 0

    def blocks(self, gap_prob=0.05, jitter=True, dist=None, big_steps=False):
        rng, l = self.rng, self.l
        bl = []
        for b in range(l.nblk):
            chans = [((dist(rng) if dist else rdist(rng)), rng.randrange(256)) for _ in range(l.nchan)]
            bl.append((self.az, chans))
            advance = True
            if self.dual and not l.T.get('is16') and (self.k % 2 == 0):
                advance = False          # dual-return pairs share an azimuth
            self.k += 1
            if advance:
                st = self.step + (rng.choice([-2, -1, 0, 0, 0, 1, 2]) if jitter else 0)
                if rng.random() < gap_prob:
                    st = rng.choice([99, 100, 101, 102, 1500, 9000])
                if big_steps and rng.random() < 0.1:
                    st = rng.choice([0, 17999, 18000, 35999])
                self.az = (self.az + max(0, st)) % 36000
        return bl

    def msop(self, ts=None, bad_blk=None, model=None, bpv4=False, temp=None, noise=False, **kw):
        rng, l = self.rng, self.l
        kind = l.ts_kind(bpv4)
        if ts is None:
            ts = utc(rng) if kind == 'utc' else ymd(rng)
        if temp is None:
            temp = (rng.randrange(256), rng.randrange(256))
        return l.msop(self.blocks(**kw), ts=ts, temp=temp, bad_blk=bad_blk, model=model, bpv4=bpv4, rng=rng if noise else None)


def mems_blocks(rng, l, dual_hdr=False):
    T = l.T
    bl = []
    toff = 0
    for b in range(l.nblk):
        chans = []
        for c in range(l.nchan):
            ch = {'dist': rdist(rng), 'int': rng.randrange(256)}
            if T['proj'] == 'pitchyaw':
                ch['pitch'] = rng.choice([32768, 32768 + rng.randrange(-2500, 2500), rng.randrange(23768, 65536)])
                ch['yaw'] = rng.choice([32768, 32768 + rng.randrange(-6000, 6000), rng.randrange(23768, 65536)])
            else:
                # MX decodes x as unsigned (recorded finding D17): keep x non-negative unless asked
                ch['x'] = rng.randrange(0, 32768)
                ch['y'] = rng.randrange(-32768, 32768)
                ch['z'] = rng.randrange(-32768, 32768)
                if T['proj'] == 'vecmx':
                    ch['dist2'] = rdist(rng); ch['int2'] = rng.randrange(256)
            chans.append(ch)
        bl.append((toff, chans))
        toff = min(toff + rng.randrange(0, 12), 255 if T['sizeof_toff'] == 1 else 65535)
    return bl


def mems_msop(rng, l, seq, ts_us=None, temp=None, return_mode=None, noise=False, bad_subs=()):
    if ts_us is None:
        ts_us = utc(rng)
    if temp is None:
        temp = rng.randrange(256)
    if return_mode is None:
        return_mode = rng.choice([0, 4, 5, 6])
    if not l.jumbo:
        return l.mems_sub(seq, mems_blocks(rng, l), ts_us=ts_us, temp=temp, return_mode=return_mode, rng=rng if noise else None)
    subs = []
    n = l.T['n_sub']
    for i in range(n):
        if i in bad_subs:
            subs.append(None)
        else:
            subs.append(l.mems_sub((seq + i) % 65536, mems_blocks(rng, l), ts_us=ts_us + i * 150, temp=temp, return_mode=return_mode, sub_len=l.T['sizeof_sub']))
    return l.jumbo_msop(subs)


def malformed(rng, l, good_msop, good_difop):
    """a packet the driver must reject (or ignore), with its kind"""
    k = rng.choice(['msop_short', 'msop_long', 'msop_badid', 'difop_short', 'difop_long', 'difop_badid', 'foreign', 'empty', 'one', 'two_msop', 'two_difop', 'rand'])
    if k == 'msop_short':
        return k, good_msop[:-rng.choice([1, 2, 6, 100])]
    if k == 'msop_long':
        return k, good_msop + bytes(rng.choice([1, 2, 6]))
    if k == 'msop_badid':
        b = bytearray(good_msop); i = rng.randrange(2, len(l.msop_id)); b[i] ^= 1 << rng.randrange(8)
        return k, bytes(b)
    if k == 'difop_short':
        return k, good_difop[:-rng.choice([1, 2, 6, 100])]
    if k == 'difop_long':
        return k, good_difop + bytes(rng.choice([1, 2, 6]))
    if k == 'difop_badid':
        b = bytearray(good_difop); i = rng.randrange(2, len(l.difop_id)); b[i] ^= 1 << rng.randrange(8)
        return k, bytes(b)
    if k == 'foreign':
        b = bytearray(good_msop); b[0] = rng.choice([0x00, 0x54, 0xAA, 0xA5]); b[1] = rng.choice([0x00, 0xAB, 0x55, 0xFE])
        if (b[0], b[1]) in ((0x55, 0xAA), (0xA5, 0xFF)):
            b[1] = 0
        return k, bytes(b[:rng.choice([len(b), 60, 200])])
    if k == 'empty':
        return k, b''
    if k == 'one':
        return k, bytes([rng.choice([0x55, 0xA5, 0x00])])
    if k == 'two_msop':
        return k, b'\x55\xaa'
    if k == 'two_difop':
        return k, b'\xa5\xff'
    return k, bytes(rng.randrange(256) for _ in range(rng.choice([3, 8, 42, 100, 256, 1248])))


class Scn:
    def __init__(self, name):
        self.lines = [f'S {name}']
        self.wall = 10

    def add(self, s):
        self.lines.append(s)

    def drv(self, i, l, cfg, answers=None):
        self.lines.append(cfg.line(i, l))
        if answers is not None:
            self.lines.append(f'A {i} ' + ' '.join(str(a) for a in answers))
        self.lines.append(f'I {i}')

    def pkt(self, i, data, tick=2):
        """feed a packet; advance the wall clock first so that every throttled site may report"""
        if tick:
            self.wall += tick
            self.lines.append(f'W {self.wall}')
        self.lines.append(f'P {i} {data.hex()}' if data else f'P {i}')

    def text(self, residual=(0,)):
        for i in residual:
            self.lines.append(f'R {i}')
        return '\n'.join(self.lines + ['E'])
